//! C12 — layered user dictionaries keep ids, parts of speech and references straight.

use serde_json::{json, Value};
use sudachi::analysis::stateless_tokenizer::DictionaryAccess;
use sudachi::analysis::Mode;
use sudachi::dic::word_id::WordId;

use crate::dictgen::{self, DictOpts};
use crate::env::{self, Place, CLS};
use crate::model::{pos, Entry, Ref};
use crate::report::{clip, guard, Report};
use crate::rng::{fnv, Rng};
use crate::scen::{build_world_from, observe, PluginOpts, Tok};
use crate::Ctx;

fn entry_view(dict: &sudachi::dic::dictionary::JapaneseDictionary, dic: usize, row: usize) -> Result<Vec<String>, String> {
    let wid = WordId::new(dic as u8, row as u32);
    let lex = dict.lexicon();
    let wi = lex.get_word_info(wid).map_err(|e| format!("{:?}", e))?;
    let (l, r, c) = lex.get_word_param(wid);
    let ids = |v: &[WordId]| v.iter().map(|w| format!("{}:{}", w.dic(), w.word())).collect::<Vec<_>>().join("/");
    Ok(vec![
        wi.surface().to_string(),
        dict.grammar().pos_components(wi.pos_id()).join(","),
        format!("{},{},{}", l, r, c),
        wi.reading_form().to_string(),
        wi.normalized_form().to_string(),
        wi.dictionary_form().to_string(),
        ids(wi.a_unit_split()),
        ids(wi.b_unit_split()),
        ids(wi.word_structure()),
        format!("{:?}", wi.synonym_group_ids()),
    ])
}

/// A version-3 user dictionary that declares no POS of its own, in the version-1 layout: other magic number, no
/// (empty, 6-byte) POS block; the word-info offsets are absolute and move with the removed block.
pub fn to_v1(v3: &[u8]) -> Option<Vec<u8>> {
    const HEADER: usize = 272;
    if v3.len() < HEADER + 18 || v3[..8] != 0xca9811756ff64fb0u64.to_le_bytes() || v3[HEADER..HEADER + 6] != [0u8; 6] {
        return None;
    }
    let rd = |b: &[u8], o: usize| -> Option<usize> { b.get(o..o + 4).map(|x| u32::from_le_bytes([x[0], x[1], x[2], x[3]]) as usize) };
    let mut out = Vec::with_capacity(v3.len());
    out.extend_from_slice(&0xa50f31188bd211e7u64.to_le_bytes());
    out.extend_from_slice(&v3[8..HEADER]);
    out.extend_from_slice(&v3[HEADER + 6..]);
    let mut o = HEADER;
    o += 4 + rd(&out, o)? * 4;
    o += 4 + rd(&out, o)?;
    let n = rd(&out, o)?;
    o += 4 + n * 6;
    for i in 0..n {
        let p = o + i * 4;
        let v = (rd(&out, p)?.checked_sub(6)?) as u32;
        out[p..p + 4].copy_from_slice(&v.to_le_bytes());
    }
    Some(out)
}

pub fn run(ctx: &Ctx, rep: &mut Report) {
    let n_worlds = ctx.n(192, 8000);
    let plugin_pos = [
        pos(["プラグイン", "品詞", "一", "*", "*", "*"]),
        pos(["プラグイン", "品詞", "二", "*", "*", "*"]),
        // the same strings as a POS some user dictionaries declare
        pos(["ユーザ", "品詞", "一", "*", "*", "*"]),
    ];
    for wi in ctx.indices(n_worlds) {
        if ctx.out_of_time() {
            rep.notes.push(format!("stopped at world {} (time budget)", wi));
            break;
        }
        let mut rng = Rng::derive(ctx.seed, 0xC12, wi);
        rep.progress_idx(wi, "C12 stack");
        let v1_world = matches!(wi % 16, 1 | 3 | 5 | 13);
        let dopts = DictOpts { max_entries: 16, cost_extremes: false, system_pos_user_layers: v1_world, ..DictOpts::default() };
        let matrix = dictgen::gen_matrix(&mut rng, &dopts);
        let nid = matrix.nid() as i64;
        let mut sys = dictgen::gen_system(&mut rng, &dopts, &matrix);
        let pool = dictgen::pos_pool();
        // a very cheap, unique word per layer (layer 0 = system)
        sys.entries.push(Entry::simple("層〇語", 0, 0, -6000, &pool[0]));
        let n_layers = match wi % 8 {
            0 => 0,
            1 => 1,
            2 => 2,
            3 => 14,
            4 => 15,
            _ => 3 + rng.below(11),
        };
        let mut p = PluginOpts::none();
        p.n_users = n_layers;
        p.simple = (rng.range(0, nid - 1), rng.range(0, nid - 1), 12000);
        let n_plugin_pos = rng.below(4);
        let mut extra: Vec<Value> = vec![];
        for (k, pp) in plugin_pos.iter().take(n_plugin_pos).enumerate() {
            if k % 2 == 0 {
                extra.push(json!({"class": format!("{}RegexOovProvider", CLS), "oovPOS": pp.to_vec(), "leftId": 0, "rightId": 0, "cost": 9000,
                    "regex": "[ⓐⓑⓒ]+", "userPOS": "allow", "boundaries": "relaxed"}));
            } else {
                let mut v = env::simple_oov_allow(pp, 0, 0, 15000);
                v["class"] = json!(format!("{}RegexOovProvider", CLS));
                v["regex"] = json!("[①②③]+");
                v["boundaries"] = json!("relaxed");
                extra.push(v);
            }
        }
        p.extra_oov_front = extra;
        // user lexicons get their cheap unique word through the generator hook below
        let built = guard(|| {
            // build_world_from generates the user lexicons itself; add the unique words by wrapping the rng stream:
            // simpler: generate with build_world_from and then check which keys are unique per layer
            build_world_from(&mut rng, &dopts, matrix.clone(), sys.clone(), p.clone(), Place::Owned)
        });
        let world = match built {
            Ok(Ok(w)) => w,
            Ok(Err(e)) if e.starts_with("user dictionary rejected") => {
                // references are written only where the documented resolution rules lead to the intended word
                rep.eval();
                rep.violation("wrong_reference", "DictBuilder(user)", &format!("a user dictionary whose references all resolve by the documented rules is rejected: {}", clip(&e, 300)), "", json!({"world_index": wi, "layers": n_layers}));
                continue;
            }
            Ok(Err(e)) => {
                if n_layers >= 15 && e.contains("TooManyDictionaries") {
                    rep.eval();
                    rep.count("fifteenth_dictionary_rejected_with_error", 1);
                    rep.nontrivial(fnv(format!("15|{}", wi).as_bytes()));
                } else {
                    rep.count("worlds_rejected", 1);
                    rep.notes.push(format!("world {} ({} layers): {}", wi, n_layers, clip(&e, 300)));
                }
                continue;
            }
            Err(pn) => {
                if n_layers >= 15 {
                    rep.violation("too_many_panic", &pn.site, &format!("loading 15 user dictionaries panics: {}", pn.msg), "", json!({"world_index": wi, "layers": n_layers}));
                } else {
                    rep.violation("load_panic", &pn.site, &pn.msg, "", json!({"world_index": wi, "layers": n_layers}));
                }
                continue;
            }
        };
        rep.eval();
        if n_layers >= 15 {
            rep.violation("too_many_accepted", "from_cfg_storage", "a 15th user dictionary was accepted", "", json!({"world_index": wi, "world": world.describe(false)}));
            continue;
        }
        // every fourth stack: the same user dictionaries written with the magic number of the previous format version
        // (version 2 has the layout of version 3): the stack must load and behave identically
        let world = if n_layers >= 1 && wi % 4 == 2 {
            let mut w = world;
            let v2: Vec<Vec<u8>> = w.user_bytes.iter().enumerate().map(|(i, b)| {
                let mut b = b.clone();
                if i % 2 == 0 && b.len() > 8 && b[..8] == 0xca9811756ff64fb0u64.to_le_bytes() {
                    b[..8].copy_from_slice(&0x9fdeb5a90168d868u64.to_le_bytes());
                }
                b
            }).collect();
            let cfg = env::config(&w.cfg_json, &w.res);
            match guard(|| env::load(&cfg, &w.sys_bytes, &v2, Place::Owned)) {
                Ok(Ok(d)) => {
                    w.dict = d;
                    w.user_bytes = v2;
                    rep.count("stacks_with_version_2_user_dictionaries", 1);
                    w
                }
                Ok(Err(e)) => {
                    rep.violation("load_error", "from_cfg_storage", &format!("the stack loads with version-3 user dictionaries but not when some carry the version-2 magic number: {:?}", e), "", json!({"world_index": wi, "layers": n_layers}));
                    continue;
                }
                Err(pn) => {
                    rep.violation("load_panic", &pn.site, &format!("user dictionaries with the version-2 magic number: {}", pn.msg), "", json!({"world_index": wi, "layers": n_layers}));
                    continue;
                }
            }
        } else if n_layers >= 1 && v1_world {
            // user dictionaries that declare no part of speech of their own, re-encoded in the first user-dictionary
            // format (header, no POS block, lexicon): they are layers like any other - same numbers, same limit of 14
            let mut w = world;
            let mut n_v1 = 0;
            let v1: Vec<Vec<u8>> = w.user_bytes.iter().map(|b| match to_v1(b) {
                Some(x) => {
                    n_v1 += 1;
                    x
                }
                None => b.clone(),
            }).collect();
            if n_v1 == 0 {
                w
            } else {
                let cfg = env::config(&w.cfg_json, &w.res);
                match guard(|| env::load(&cfg, &w.sys_bytes, &v1, Place::Owned)) {
                    Ok(Ok(d)) => {
                        w.dict = d;
                        w.user_bytes = v1;
                        rep.count("stacks_with_version_1_user_dictionaries", 1);
                        rep.count("version_1_user_dictionaries", n_v1);
                        w
                    }
                    Ok(Err(e)) => {
                        rep.violation("load_error", "from_cfg_storage", &format!("the stack loads with version-3 user dictionaries but not when those without own POS are written in the version-1 layout: {:?}", e), "", json!({"world_index": wi, "layers": n_layers}));
                        continue;
                    }
                    Err(pn) => {
                        rep.violation("load_panic", &pn.site, &format!("user dictionaries in the version-1 layout: {}", pn.msg), "", json!({"world_index": wi, "layers": n_layers}));
                        continue;
                    }
                }
            }
        } else {
            world
        };
        rep.count("stacks", 1);
        rep.max("max_layers", n_layers as u64);
        rep.count(&format!("plugin_registered_pos_{}", n_plugin_pos), 1);
        let scen = |extra: &str| json!({"world_index": wi, "layers": n_layers, "detail": extra, "world": world.describe(true)});
        let lex = world.dict.lexicon();
        let mut ok = true;
        // (a) every row of every layer
        'rows: for dic in 0..=n_layers {
            let layer = world.lexicon_of(dic);
            for (row, e) in layer.entries.iter().enumerate() {
                let v = match guard(|| entry_view(&world.dict, dic, row)) {
                    Ok(Ok(v)) => v,
                    Ok(Err(er)) => {
                        rep.violation("read_error", "get_word_info", &er, "", scen(&format!("dictionary {} row {}", dic, row)));
                        ok = false;
                        break 'rows;
                    }
                    Err(pn) => {
                        rep.violation("read_panic", &pn.site, &pn.msg, "", scen(&format!("dictionary {} row {} ({:?}, POS {})", dic, row, e.key, e.pos.join(","))));
                        ok = false;
                        break 'rows;
                    }
                };
                rep.count("rows_checked", 1);
                if v[1] != e.pos.join(",") {
                    rep.violation("wrong_pos", "part of speech", &format!("dictionary {} row {} ({:?}) declares POS {} but reports {}", dic, row, e.key, e.pos.join(","), v[1]), "", scen(""));
                    ok = false;
                    break 'rows;
                }
                let refs = |r: &[Ref]| r.iter().map(|x| format!("{}:{}", if x.dic == 0 { 0 } else { dic }, x.row)).collect::<Vec<_>>().join("/");
                for (name, got, exp) in [("A units", &v[6], refs(&e.split_a)), ("B units", &v[7], refs(&e.split_b)), ("word structure", &v[8], refs(&e.word_structure))] {
                    if *got != exp {
                        rep.violation("wrong_reference", name, &format!("dictionary {} row {} ({:?}): {} resolve to {} but were declared as {}", dic, row, e.key, name, got, exp), "", scen(""));
                        ok = false;
                        break 'rows;
                    }
                }
                // the row is found by lookup under its own dictionary number
                if e.indexed() {
                    let found = guard(|| lex.lookup(e.key.as_bytes(), 0).any(|x| x.end == e.key.len() && x.word_id.dic() as usize == dic && x.word_id.word() as usize == row));
                    if let Ok(false) = found {
                        rep.violation("wrong_dictionary_id", "lookup", &format!("dictionary {} row {} ({:?}) is not returned by lookup under its dictionary number", dic, row, e.key), "", scen(""));
                        ok = false;
                        break 'rows;
                    }
                }
            }
        }
        if !ok {
            continue;
        }
        // (b) system words are unaffected by the user dictionaries
        if n_layers > 0 {
            let cfg = env::config(&world.cfg_json, &world.res);
            match guard(|| env::load(&cfg, &world.sys_bytes, &[], Place::Owned)) {
                Ok(Ok(base)) => {
                    for row in 0..world.sys.entries.len() {
                        let a = guard(|| entry_view(&world.dict, 0, row));
                        let b = guard(|| entry_view(&base, 0, row));
                        rep.count("system_rows_compared_with_zero_layer_load", 1);
                        match (a, b) {
                            (Ok(Ok(x)), Ok(Ok(y))) if x == y => {}
                            (x, y) => {
                                rep.violation("system_word_changed", "entry_view", &format!("system row {}: with {} user dictionaries {:?}, without {:?}", row, n_layers, x.ok(), y.ok()), "", scen(""));
                                ok = false;
                                break;
                            }
                        }
                    }
                }
                _ => rep.notes.push("zero-layer load failed".to_string()),
            }
        }
        if !ok {
            continue;
        }
        // (b') the same stack loaded from files through the configuration (systemDict / userDict paths), with one user
        // dictionary listed twice in a row: every listed file is a layer of its own
        if ok && n_layers >= 1 && n_layers <= 8 && wi % 2 == 0 {
            file_based(&world, &mut rng, rep, wi);
        }
        // (c) morpheme level: words that exist in exactly one layer and are cheap enough to win
        // (second pass: a tokenizer that requests only part of the fields, POS among them)
        let mut checked = 0;
        for pass in 0..2 {
        let mut t = Tok::new(&world.dict, Mode::C);
        if pass == 1 {
            let bits = 0x004 | ((rng.next() as u32) & 0x23b);
            t.tok.set_subset(crate::fields::subset_of(bits));
            rep.count("morpheme_passes_with_a_field_subset", 1);
        }
        for dic in 0..=n_layers {
            for (row, e) in world.lexicon_of(dic).entries.iter().enumerate() {
                if !e.indexed() || e.key.chars().count() < 2 {
                    continue;
                }
                let text = format!("{}ⓐⓑ{}①", e.key, e.key);
                rep.eval();
                if let Ok(Ok(())) = guard(|| t.run(&text)) {
                    if let Ok(obs) = guard(|| observe(&t.list)) {
                        for o in &obs {
                            let d = (o.word_id >> 28) as usize;
                            let exp_id = if d == 15 { -1 } else { d as i32 };
                            if o.dic_id != exp_id || o.is_oov != (d == 15) {
                                rep.violation("wrong_dictionary_id", "Morpheme::dictionary_id", &format!("morpheme {:?} (word {:#x}) reports dictionary {} / is_oov {}", o.surface, o.word_id, o.dic_id, o.is_oov), "", scen(&text));
                                ok = false;
                            }
                            if d < 15 && d <= n_layers {
                                let r = (o.word_id & 0x0fff_ffff) as usize;
                                if let Some(me) = world.lexicon_of(d).entries.get(r) {
                                    checked += 1;
                                    if o.pos != me.pos.to_vec() {
                                        rep.violation("wrong_pos", "Morpheme::part_of_speech", &format!("morpheme {:?} from dictionary {} row {} declares POS {} but reports {}", o.surface, d, r, me.pos.join(","), o.pos.join(",")), "", scen(&text));
                                        ok = false;
                                    }
                                    if d == dic && r == row {
                                        rep.count("layer_words_seen_as_morphemes", 1);
                                    }
                                }
                            } else if d == 15 {
                                // OOV morphemes created by the plugins that registered POS
                                let mut allowed: Vec<Vec<String>> = vec![pool[2].to_vec()];
                                allowed.extend(plugin_pos.iter().take(n_plugin_pos).map(|p| p.to_vec()));
                                if !allowed.contains(&o.pos) {
                                    rep.violation("wrong_pos", "Morpheme::part_of_speech", &format!("OOV morpheme {:?} reports POS {:?}, which no OOV provider was configured with", o.surface, o.pos), "", scen(&text));
                                    ok = false;
                                }
                                if o.surface == "ⓐⓑ" && n_plugin_pos >= 1 && o.pos != plugin_pos[0].to_vec() {
                                    rep.violation("wrong_pos", "plugin-registered POS", &format!("OOV morpheme {:?} must carry the POS registered by its provider, reports {}", o.surface, o.pos.join(",")), "", scen(&text));
                                    ok = false;
                                }
                                rep.count("oov_morphemes_checked", 1);
                            }
                        }
                    }
                }
                if !ok {
                    break;
                }
            }
            if !ok {
                break;
            }
        }
        }
        rep.count("morphemes_checked", checked);
        if ok {
            if n_layers >= 2 {
                rep.nontrivial(fnv(format!("{}|{}", wi, n_layers).as_bytes()));
            }
            if rep.want_sample() && n_layers >= 3 {
                rep.sample(json!({"layers": n_layers, "plugin_registered_pos": n_plugin_pos, "pos_list_size": world.dict.grammar().pos_list.len(),
                    "user_rows": world.users.iter().map(|u| u.entries.len()).collect::<Vec<_>>()}));
            }
        }
    }
}

/// Loads the world's dictionaries from files named in the configuration; one user dictionary is listed twice in a row.
fn file_based(world: &crate::scen::World, rng: &mut Rng, rep: &mut Report, wi: u64) {
    use sudachi::config::ConfigBuilder;
    use sudachi::dic::dictionary::JapaneseDictionary;
    let dir = &world.res;
    dir.write_bytes("system.dic", &world.sys_bytes);
    let mut order: Vec<usize> = (0..world.users.len()).collect();
    let dup = rng.below(order.len());
    order.insert(dup, order[dup]);
    let mut paths = vec![];
    for (j, u) in order.iter().enumerate() {
        let name = format!("user{}.dic", u);
        dir.write_bytes(&name, &world.user_bytes[*u]);
        let _ = j;
        paths.push(dir.path.join(&name).to_string_lossy().to_string());
    }
    // file names relative to the resource directory in every other stack
    if rng.chance(1, 2) {
        for (j, u) in order.iter().enumerate() {
            paths[j] = format!("user{}.dic", u);
        }
        rep.count("stacks_listed_with_relative_paths", 1);
    }
    let mut cfg_json = world.cfg_json.clone();
    cfg_json["systemDict"] = json!(dir.path.join("system.dic").to_string_lossy().to_string());
    // a listed file that does not exist anywhere: the list cannot be honoured, so loading fails; it never succeeds with
    // the later dictionaries moved down one number
    {
        let at = rng.below(paths.len());
        let mut with_missing = paths.clone();
        with_missing.insert(at, "no-such-user-dictionary.dic".to_string());
        let mut cj = cfg_json.clone();
        cj["userDict"] = json!(with_missing);
        rep.eval();
        let r = guard(|| {
            let cfg = ConfigBuilder::from_bytes(&serde_json::to_vec(&cj).unwrap()).map_err(|e| format!("{:?}", e))?.resource_path(dir.path.clone()).build();
            JapaneseDictionary::from_cfg(&cfg).map_err(|e| format!("{:?}", e))
        });
        match r {
            Ok(Err(_)) => rep.count("stacks_with_a_missing_listed_file_refused", 1),
            Ok(Ok(d)) => {
                // numbers must still be positions in the configured list
                let lex = d.lexicon();
                'outer: for (j, u) in order.iter().enumerate().filter(|(j, _)| *j >= at) {
                    let dic = j + 2;
                    for (row, e) in world.users[*u].entries.iter().enumerate().filter(|(_, e)| e.indexed()) {
                        if let Ok(false) = guard(|| lex.lookup(e.key.as_bytes(), 0).any(|x| x.end == e.key.len() && x.word_id.dic() as usize == dic && x.word_id.word() as usize == row)) {
                            rep.violation("wrong_dictionary_id", "lookup", &format!("userDict lists a file that does not exist at position {}; loading succeeds and the dictionary listed at position {} (user{}.dic) is not found under number {}", at + 1, dic, u, dic), "", json!({"world_index": wi, "userDict": with_missing}));
                            break 'outer;
                        }
                    }
                }
            }
            Err(p) => rep.violation("load_panic", &p.site, &format!("userDict with a file that does not exist: {}", p.msg), "", json!({"world_index": wi, "userDict": with_missing})),
        }
    }
    // the list is given in the JSON text, or built up with ConfigBuilder::user_dict() (one call per file, the first
    // one possibly on top of a JSON list)
    let via_builder = rng.below(3);
    let json_part = match via_builder {
        0 => paths.len(),
        1 => 0,
        _ => 1,
    };
    cfg_json["userDict"] = json!(paths[..json_part].to_vec());
    let scen = |extra: &str| json!({"world_index": wi, "userDict_order": order, "user_dicts_in_json": json_part, "user_dicts_added_with_ConfigBuilder_user_dict": paths.len() - json_part,
        "detail": extra, "config": cfg_json, "world": world.describe(true)});
    rep.eval();
    let loaded = guard(|| {
        let mut b = ConfigBuilder::from_bytes(&serde_json::to_vec(&cfg_json).unwrap()).map_err(|e| format!("{:?}", e))?.resource_path(dir.path.clone());
        for p in &paths[json_part..] {
            b = b.user_dict(p.clone());
        }
        let cfg = b.build();
        JapaneseDictionary::from_cfg(&cfg).map_err(|e| format!("{:?}", e))
    });
    if json_part < paths.len() {
        rep.count("stacks_built_with_ConfigBuilder_user_dict", 1);
    }
    let dict = match loaded {
        Ok(Ok(d)) => d,
        Ok(Err(e)) => {
            if order.len() >= 15 && e.contains("TooManyDictionaries") {
                rep.count("fifteenth_dictionary_rejected_with_error", 1);
            } else {
                rep.violation("load_error", "JapaneseDictionary::from_cfg", &format!("the stack loads from memory but not from files: {}", clip(&e, 300)), "", scen(""));
            }
            return;
        }
        Err(p) => {
            rep.violation("load_panic", &p.site, &p.msg, "", scen("from_cfg"));
            return;
        }
    };
    if order.len() >= 15 {
        rep.violation("too_many_accepted", "JapaneseDictionary::from_cfg", "15 listed user dictionaries were accepted", "", scen(""));
        return;
    }
    rep.count("stacks_loaded_from_files", 1);
    let lex = dict.lexicon();
    for (j, u) in order.iter().enumerate() {
        let dic = j + 1;
        let layer = &world.users[*u];
        for (row, e) in layer.entries.iter().enumerate() {
            if !e.indexed() {
                continue;
            }
            rep.count("file_based_rows_checked", 1);
            let found = guard(|| lex.lookup(e.key.as_bytes(), 0).any(|x| x.end == e.key.len() && x.word_id.dic() as usize == dic && x.word_id.word() as usize == row));
            match found {
                Ok(true) => {}
                Ok(false) => {
                    rep.violation("wrong_dictionary_id", "lookup", &format!("user dictionary listed at position {} (file user{}.dic) row {} ({:?}) is not returned by lookup under dictionary number {}", dic, u, row, e.key, dic), "", scen(""));
                    return;
                }
                Err(p) => {
                    rep.violation("read_panic", &p.site, &p.msg, "", scen("lookup"));
                    return;
                }
            }
            match guard(|| entry_view(&dict, dic, row)) {
                Ok(Ok(v)) => {
                    if v[1] != e.pos.join(",") {
                        rep.violation("wrong_pos", "part of speech", &format!("file-based stack: dictionary {} row {} ({:?}) declares POS {} but reports {}", dic, row, e.key, e.pos.join(","), v[1]), "", scen(""));
                        return;
                    }
                    let refs = |r: &[Ref]| r.iter().map(|x| format!("{}:{}", if x.dic == 0 { 0 } else { dic }, x.row)).collect::<Vec<_>>().join("/");
                    if v[6] != refs(&e.split_a) || v[7] != refs(&e.split_b) {
                        rep.violation("wrong_reference", "split units", &format!("file-based stack: dictionary {} row {} ({:?}): units resolve to {} / {}, declared {} / {}", dic, row, e.key, v[6], v[7], refs(&e.split_a), refs(&e.split_b)), "", scen(""));
                        return;
                    }
                }
                Ok(Err(er)) => {
                    rep.violation("read_error", "get_word_info", &er, "", scen(&format!("dictionary {} row {}", dic, row)));
                    return;
                }
                Err(p) => {
                    rep.violation("read_panic", &p.site, &p.msg, "", scen(&format!("dictionary {} row {}", dic, row)));
                    return;
                }
            }
        }
    }
}
