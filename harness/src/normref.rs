//! Independent reference for the input-text plugins (C07) — written from the property
//! statement, shares no code with the plugins (the NFKC / case tables come from the
//! unicode-normalization crate and std, which are the trusted base).

use std::collections::{HashMap, HashSet};
use unicode_normalization::UnicodeNormalization;

#[derive(Clone, Debug, Default)]
pub struct RewriteTable {
    pub ignore: HashSet<char>,
    pub replace: HashMap<String, String>,
    pub max_key_chars: usize,
}

impl RewriteTable {
    /// Same file syntax as rewrite.def: one column = exempt character, two columns = key value
    pub fn parse(text: &str) -> RewriteTable {
        let mut t = RewriteTable::default();
        for line in text.lines() {
            let line = line.trim();
            if line.is_empty() || line.starts_with('#') {
                continue;
            }
            let cols: Vec<&str> = line.split_whitespace().collect();
            if cols.len() == 1 {
                if let Some(c) = cols[0].chars().next() {
                    t.ignore.insert(c);
                }
            } else if cols.len() == 2 {
                t.max_key_chars = t.max_key_chars.max(cols[0].chars().count());
                t.replace.insert(cols[0].to_string(), cols[1].to_string());
            }
        }
        t
    }

    pub fn to_text(&self, order: &[String]) -> String {
        let mut s = String::from("# generated\n");
        let mut ig: Vec<&char> = self.ignore.iter().collect();
        ig.sort();
        for c in ig {
            s.push(*c);
            s.push('\n');
        }
        for k in order {
            s.push_str(&format!("{} {}\n", k, self.replace[k]));
        }
        s
    }
}

/// Title-case letters: neither upper case nor left alone by a lower-case mapping; the
/// statement does not say whether "lower-cased" covers them
pub fn is_titlecase(c: char) -> bool {
    !c.is_uppercase() && !c.is_lowercase() && c.to_lowercase().next() != Some(c)
}

/// nfkc(lowercase(c)), with NFKC skipped for exempt characters
pub fn norm_char(t: &RewriteTable, c: char, out: &mut String) {
    let lowered: String = if c.is_uppercase() { c.to_lowercase().collect() } else { c.to_string() };
    if t.ignore.contains(&c) {
        out.push_str(&lowered);
    } else {
        out.extend(lowered.chars().nfkc());
    }
}

/// The specified function: left to right, longest table key wins, otherwise per-character
pub fn normalize(t: &RewriteTable, text: &str) -> String {
    let chars: Vec<char> = text.chars().collect();
    let mut out = String::with_capacity(text.len());
    let mut i = 0;
    let mut probe = String::new();
    while i < chars.len() {
        let mut matched: Option<(usize, &String)> = None;
        probe.clear();
        for l in 1..=t.max_key_chars.min(chars.len() - i) {
            probe.push(chars[i + l - 1]);
            if let Some(v) = t.replace.get(&probe) {
                matched = Some((l, v));
            }
        }
        if let Some((l, v)) = matched {
            out.push_str(v);
            i += l;
        } else {
            norm_char(t, chars[i], &mut out);
            i += 1;
        }
    }
    out
}

/// Every maximal run of >=2 mark characters becomes one replacement symbol
pub fn prolonged(text: &str, marks: &[char], replacement: &str) -> String {
    let chars: Vec<char> = text.chars().collect();
    let mut out = String::new();
    let mut i = 0;
    while i < chars.len() {
        if marks.contains(&chars[i]) {
            let mut j = i;
            while j < chars.len() && marks.contains(&chars[j]) {
                j += 1;
            }
            if j - i >= 2 {
                out.push_str(replacement);
            } else {
                out.push(chars[i]);
            }
            i = j;
        } else {
            out.push(chars[i]);
            i += 1;
        }
    }
    out
}

/// kanji-class character, left bracket, 1..=max kana-class characters, right bracket:
/// the bracketed part is deleted (leftmost, non-overlapping)
pub fn yomigana(
    text: &str,
    is_kanji: &dyn Fn(char) -> bool,
    is_kana: &dyn Fn(char) -> bool,
    left: &[char],
    right: &[char],
    max: usize,
) -> String {
    let chars: Vec<char> = text.chars().collect();
    let mut out = String::new();
    let mut i = 0;
    while i < chars.len() {
        out.push(chars[i]);
        if is_kanji(chars[i]) && i + 1 < chars.len() && left.contains(&chars[i + 1]) {
            // longest k first (the pattern is greedy)
            let mut k_found = None;
            let mut k = 0;
            while k < max && i + 2 + k < chars.len() && is_kana(chars[i + 2 + k]) {
                k += 1;
            }
            let mut kk = k;
            while kk >= 1 {
                if i + 2 + kk < chars.len() && right.contains(&chars[i + 2 + kk]) {
                    k_found = Some(kk);
                    break;
                }
                kk -= 1;
            }
            if let Some(k) = k_found {
                i = i + 3 + k;
                continue;
            }
        }
        i += 1;
    }
    out
}
