//! C08 — code-point offsets agree with byte offsets; the offset map is monotone and anchored.

use serde_json::json;
use sudachi::analysis::Mode;
use sudachi::input_text::{InputBuffer, InputTextIndex};

use crate::dictgen::DictOpts;
use crate::env::Place;
use crate::report::{clip, guard, Report};
use crate::rng::{fnv, Rng};
use crate::scen::{build_world, observe, PluginOpts, Tok, MODES};
use crate::textgen;
use crate::Ctx;

const POOL: &[&str] = &[
    "a", "b", "Z", "0", " ", "é", "ß", "д", "あ", "ア", "京", "。", "ー", "ｶ", "㍿", "\u{301}", "\u{3099}", "👍", "🏻", "𠮷", "\u{200d}",
    "\u{0}", "\u{10ffff}", "\u{7ff}", "\u{800}", "\u{ffff}", "\u{10000}",
];

#[derive(Clone, Debug)]
struct MChar {
    ch: char,
    /// byte offset in the original of an untouched character
    origin: Option<usize>,
}

#[derive(Clone, Debug)]
struct Edit {
    start: usize,
    end: usize,
    with: String,
    how: u8,
}

fn gen_string(rng: &mut Rng, max: usize) -> String {
    let n = rng.below(max + 1);
    (0..n).map(|_| rng.s(POOL)).collect()
}

fn gen_batch(rng: &mut Rng, cur: &[MChar]) -> Vec<Edit> {
    // char boundaries in bytes
    let mut bounds = vec![0usize];
    for c in cur {
        bounds.push(bounds.last().unwrap() + c.ch.len_utf8());
    }
    let nchars = cur.len();
    let mut edits = vec![];
    let mut ci = 0usize;
    let style = rng.below(4);
    while ci < nchars {
        let take = match style {
            0 => rng.chance(1, 2),
            1 => rng.chance(1, 6),
            2 => ci == 0 || ci + 1 == nchars || rng.chance(1, 8),
            _ => rng.chance(1, 3),
        };
        if !take {
            ci += 1;
            continue;
        }
        let len = 1 + rng.below(3.min(nchars - ci));
        let with = match rng.below(6) {
            0 => String::new(),
            1 => cur[ci..ci + len].iter().map(|c| c.ch).collect(),
            2 => rng.s(POOL).to_string(),
            _ => {
                let mut s = gen_string(rng, 4);
                if s.is_empty() {
                    s.push_str(rng.s(POOL));
                }
                s
            }
        };
        edits.push(Edit { start: bounds[ci], end: bounds[ci + len], with, how: rng.below(4) as u8 });
        ci += len;
        // adjacent edit or gap
        if !rng.chance(1, 3) {
            ci += rng.below(3);
        }
    }
    edits
}

fn apply_model(cur: &[MChar], edits: &[Edit]) -> Vec<MChar> {
    let mut out = vec![];
    let mut pos = 0usize;
    let mut ei = 0usize;
    for c in cur {
        let len = c.ch.len_utf8();
        while ei < edits.len() && edits[ei].end <= pos {
            ei += 1;
        }
        if ei < edits.len() && edits[ei].start <= pos && pos < edits[ei].end {
            if edits[ei].start == pos {
                for ch in edits[ei].with.chars() {
                    out.push(MChar { ch, origin: None });
                }
            }
        } else {
            out.push(c.clone());
        }
        pos += len;
    }
    out
}

fn apply_real(buf: &mut InputBuffer, edits: &[Edit]) -> Result<(), String> {
    buf.with_editor(|_b, mut e| {
        for ed in edits {
            let r = ed.start..ed.end;
            let mut chars = ed.with.chars();
            match (ed.how, chars.next()) {
                (0, _) => e.replace_ref(r, &ed.with),
                (1, Some(c)) if ed.with.chars().count() == 1 => e.replace_char(r, c),
                (2, Some(c)) => e.replace_char_iter(r, c, chars),
                _ => e.replace_own(r, ed.with.clone()),
            }
        }
        Ok(e)
    })
    .map_err(|e| format!("{:?}", e))
}

fn check_map(original: &str, buf: &InputBuffer, model: &[MChar]) -> Result<u64, String> {
    let cur = buf.current();
    let expect: String = model.iter().map(|c| c.ch).collect();
    if cur != expect {
        return Err(format!("rewritten text is {:?}, the edits describe {:?}", clip(cur, 60), clip(&expect, 60)));
    }
    let mut prev = 0usize;
    let mut pos = 0usize;
    let mut checked = 0u64;
    for (i, c) in model.iter().enumerate() {
        let m = buf.get_original_index(pos);
        if i == 0 && m != 0 {
            return Err(format!("start of the rewritten text maps to {} instead of 0", m));
        }
        if m < prev {
            return Err(format!("map decreases: position {} maps to {} after {}", pos, m, prev));
        }
        if m > original.len() || !original.is_char_boundary(m) {
            return Err(format!("position {} maps to {}, which is not a character boundary of the original", pos, m));
        }
        if let Some(o) = c.origin {
            if i != 0 && m != o {
                return Err(format!("unreplaced character {:?} at position {} maps to {} instead of its own start {}", c.ch, pos, m, o));
            }
        }
        prev = m;
        pos += c.ch.len_utf8();
        checked += 1;
    }
    let m = buf.get_original_index(pos);
    if m != original.len() {
        return Err(format!("end of the rewritten text maps to {} instead of {}", m, original.len()));
    }
    if m < prev {
        return Err(format!("map decreases at the end: {} after {}", m, prev));
    }
    Ok(checked + 1)
}

fn check_built(original: &str, buf: &InputBuffer, rng: &mut Rng) -> Result<u64, String> {
    let n = buf.current_chars().len();
    let mut checked = 0;
    for i in 0..=n {
        let ob = buf.to_orig_byte_idx(i);
        if ob > original.len() || !original.is_char_boundary(ob) {
            return Err(format!("char {} maps to original byte {} (not a boundary)", i, ob));
        }
        let oc = buf.to_orig_char_idx(i);
        let exp = original[..ob].chars().count();
        if oc != exp {
            return Err(format!("char {} maps to original byte {} = code point {}, but code point {} is reported", i, ob, exp, oc));
        }
        checked += 1;
    }
    // query ranges on character boundaries
    for _ in 0..6 {
        let a = rng.below(n + 1);
        let b = a + rng.below(n + 1 - a);
        let ba = buf.to_curr_byte_idx(a);
        let bb = buf.to_curr_byte_idx(b);
        let r = buf.to_orig(ba..bb);
        let s = buf.orig_slice(ba..bb);
        if r.start > r.end || &original[r.clone()] != s {
            return Err(format!("range {}..{} maps to {:?} / slice {:?}", ba, bb, r, s));
        }
        if buf.orig_slice_c(a..b) != s {
            return Err(format!("orig_slice_c({}..{}) differs from orig_slice", a, b));
        }
        checked += 1;
    }
    Ok(checked)
}

pub fn run(ctx: &Ctx, rep: &mut Report) {
    // part A: edit histories on InputBuffer
    let n_hist = ctx.n(160_000, 16_000_000);
    let mut rng0 = Rng::derive(ctx.seed, 0xC08, 0);
    let world = match build_world(&mut rng0, &DictOpts { splits: false, ..DictOpts::default() }, Some(PluginOpts::none()), false, Place::Owned) {
        Ok(w) => w,
        Err(e) => {
            rep.notes.push(format!("cannot build the grammar world: {}", e));
            return;
        }
    };
    let chunk = 500u64;
    let n_chunks = (n_hist + chunk - 1) / chunk;
    for ci in ctx.indices(n_chunks) {
        if ctx.out_of_fraction(0.6) {
            rep.notes.push(format!("stopped at history chunk {} (time budget of part A)", ci));
            break;
        }
        rep.progress_idx(ci, "C08 history chunk");
        for hi in 0..chunk {
            let mut rng = Rng::derive(ctx.seed, 0xC08A + ci, hi);
            let original = {
                let mut s = gen_string(&mut rng, 12);
                if s.is_empty() {
                    s.push_str(rng.s(POOL));
                }
                s
            };
            let n_batches = 1 + rng.below(4);
            rep.eval();
            let mut model: Vec<MChar> = original.char_indices().map(|(b, ch)| MChar { ch, origin: Some(b) }).collect();
            let mut buf = InputBuffer::from(original.as_str());
            let mut history: Vec<Vec<Edit>> = vec![];
            let mut bad: Option<(String, String)> = None;
            let mut changed_len = false;
            for _ in 0..n_batches {
                if rng.chance(1, 8) {
                    // a batch whose callback queues edits and then reports an error: nothing may be applied, now or later
                    let junk = gen_batch(&mut rng, &model);
                    let r = guard(|| {
                        buf.with_editor(|_b, mut e| {
                            for ed in &junk {
                                e.replace_own(ed.start..ed.end, ed.with.clone());
                            }
                            let _ = e;
                            Err(sudachi::error::SudachiError::NoOOVPluginProvided)
                        })
                    });
                    rep.count("rejected_batches", 1);
                    match r {
                        Ok(Err(_)) => {}
                        Ok(Ok(())) => {
                            bad = Some(("edit_error".into(), "a batch whose callback failed was reported as success".into()));
                            break;
                        }
                        Err(p) => {
                            bad = Some(("edit_panic".into(), format!("{} at {}", p.msg, p.site)));
                            break;
                        }
                    }
                    if let Ok(Err(m)) = guard(|| check_map(&original, &buf, &model)) {
                        bad = Some(("offset_map".into(), format!("after a rejected batch: {}", m)));
                        break;
                    }
                }
                let edits = gen_batch(&mut rng, &model);
                let next = apply_model(&model, &edits);
                if next.is_empty() {
                    // emptying the text is outside the statement
                    break;
                }
                if edits.iter().any(|e| e.with.len() != e.end - e.start) {
                    changed_len = true;
                }
                history.push(edits.clone());
                match guard(|| apply_real(&mut buf, &edits)) {
                    Err(p) => {
                        bad = Some(("edit_panic".into(), format!("{} at {}", p.msg, p.site)));
                        break;
                    }
                    Ok(Err(e)) => {
                        bad = Some(("edit_error".into(), e));
                        break;
                    }
                    Ok(Ok(())) => {}
                }
                model = next;
                rep.count("edit_batches", 1);
                match guard(|| check_map(&original, &buf, &model)) {
                    Err(p) => {
                        bad = Some(("map_panic".into(), format!("{} at {}", p.msg, p.site)));
                        break;
                    }
                    Ok(Err(m)) => {
                        bad = Some(("offset_map".into(), m));
                        break;
                    }
                    Ok(Ok(n)) => rep.count("map_positions_checked", n),
                }
            }
            if bad.is_none() && !history.is_empty() {
                match guard(|| {
                    buf.build(world.dict.grammar()).map_err(|e| format!("{:?}", e))?;
                    let n = check_built(&original, &buf, &mut rng)?;
                    // a copy of the finished buffer answers every offset question like the buffer itself
                    let copy = buf.clone();
                    let m = check_built(&original, &copy, &mut rng).map_err(|e| format!("copy (Clone) of the built buffer: {}", e))?;
                    Ok(n + m)
                }) {
                    Err(p) => bad = Some(("built_panic".into(), format!("{} at {}", p.msg, p.site))),
                    Ok(Err(m)) => bad = Some(("code_point_offsets".into(), m)),
                    Ok(Ok(n)) => rep.count("built_positions_checked", n),
                }
            }
            let describe = || {
                json!({"chunk": ci, "history_index": hi, "original": original,
                    "batches": history.iter().map(|b| b.iter().map(|e| json!([e.start, e.end, e.with])).collect::<Vec<_>>()).collect::<Vec<_>>()})
            };
            if let Some((kind, msg)) = bad {
                rep.violation(&kind, "InputBuffer", &msg, "", describe());
            } else if history.len() >= 2 || changed_len {
                rep.nontrivial(fnv(format!("{}|{:?}", original, history).as_bytes()));
                if history.len() >= 2 {
                    rep.count("histories_with_several_batches", 1);
                }
                if rep.want_sample() && history.len() >= 2 {
                    rep.sample(describe());
                }
            }
        }
    }

    // part B: whole tokenizations
    let n_worlds = ctx.n(160, 4000);
    for wi in ctx.indices(n_worlds) {
        if ctx.out_of_time() {
            break;
        }
        let mut rng = Rng::derive(ctx.seed, 0xC08B, wi);
        rep.progress_idx(1_000_000 + wi, "C08 world");
        let world = match guard(|| build_world(&mut rng, &DictOpts::default(), None, true, Place::Owned)) {
            Ok(Ok(w)) => w,
            _ => continue,
        };
        let keys = world.keys();
        let mode = MODES[(wi % 3) as usize];
        let mut t = Tok::new(&world.dict, mode);
        // every third world analyses with a narrow field request (no path-rewrite plugin data is needed for what is
        // checked here: byte and code-point offsets and the raw surface)
        if wi % 3 == 2 {
            let bits = *rng.pick(&[0x000u32, 0x001, 0x004, 0x200, 0x009]);
            t.tok.set_subset(crate::fields::subset_of(bits));
            rep.count("worlds_with_a_narrow_field_request", 1);
        }
        // output lists of on-demand splits: one that never held an analysis, one that holds the analysis of another text
        let mut out_empty = sudachi::prelude::MorphemeList::empty(&world.dict);
        let mut texts: Vec<String> = (0..40).map(|_| textgen::text_from_keys(&mut rng, &keys, 8)).collect();
        if wi % 4 == 0 && world.plugins.default_input {
            // normalisation that expands the text close to / beyond the 65,535-byte limit of the rewritten text while
            // the input stays far below its own limit (U+337F: 3 bytes -> 12 bytes)
            for n in [5400 + rng.below(60), 5461, 5462 + rng.below(100)] {
                texts.push(format!("{}{}{}", rng.pick(&keys), "\u{337f}".repeat(n), rng.pick(&keys)));
            }
        }
        if wi % 4 == 1 {
            // more than 65,535 bytes in fewer than 49,149 characters, made of units that no plugin rewrites: over the input
            // limit, so refused today; whatever is accepted must have consistent offsets
            let unit = format!("{}{}", rng.s(textgen::HIRA), rng.s(textgen::KANJI));
            let mut t = String::new();
            while t.len() < 66_000 + rng.below(6_000) {
                t.push_str(&unit);
                if rng.chance(1, 7) {
                    t.push_str(rng.pick(&keys[..]).as_str());
                }
            }
            texts.push(t);
            rep.count("inputs_over_65535_bytes_offered", 1);
        }
        for text in texts {
            rep.eval();
            match guard(|| t.run(&text)) {
                Ok(Ok(())) => {}
                Ok(Err(_)) => continue,
                Err(p) => {
                    rep.skipped_panic(&p, json!({"text": text}));
                    t = Tok::new(&world.dict, mode);
                    continue;
                }
            }
            let obs = match guard(|| observe(&t.list)) {
                Ok(o) => o,
                Err(p) => {
                    // the analysis succeeded, but the offsets / surface of its morphemes cannot even be read
                    rep.violation("code_point_offsets", &p.site, &format!("reading begin/end/surface of the morphemes of a successful analysis panics: {}", p.msg), "",
                        json!({"world_index": wi, "text": clip(&text, 400), "text_bytes": text.len(), "mode": crate::scen::mode_name(mode), "world": world.describe(true)}));
                    continue;
                }
            };
            let chars: Vec<char> = text.chars().collect();
            for (i, o) in obs.iter().enumerate() {
                if o.begin > text.len() || o.end > text.len() || !text.is_char_boundary(o.begin) || !text.is_char_boundary(o.end) {
                    continue; // C01's business
                }
                let eb = text[..o.begin].chars().count();
                let ee = text[..o.end].chars().count();
                let scen = || json!({"world_index": wi, "text": text, "mode": crate::scen::mode_name(mode), "world": world.describe(true)});
                if o.begin_c != eb || o.end_c != ee {
                    rep.violation("code_point_offsets", "Morpheme::begin_c/end_c", &format!("morpheme {} bytes {}..{} = code points {}..{}, reported {}..{}", i, o.begin, o.end, eb, ee, o.begin_c, o.end_c), "", scen());
                    break;
                }
                let by_cp: String = chars[o.begin_c..o.end_c].iter().collect();
                if by_cp != o.surface {
                    rep.violation("code_point_offsets", "slice_by_code_points", &format!("morpheme {}: slicing by code points gives {:?}, surface is {:?}", i, by_cp, o.surface), "", scen());
                    break;
                }
                rep.count("morpheme_offsets_checked", 1);
            }
            if text.len() > 10_000 {
                rep.count("expanding_inputs_near_the_limit_accepted", 1);
            }
            // the older split API (returns a new list; a word that is not split comes back as it is)
            if text.len() < 10_000 {
                for (i, o) in obs.iter().enumerate().take(12) {
                    for sm in [Mode::A, Mode::B] {
                        #[allow(deprecated)]
                        let r = guard(|| t.list.get(i).split(sm).map(|l| observe(&l)));
                        match r {
                            Ok(Ok(parts)) => {
                                let ok = !parts.is_empty() && parts[0].begin == o.begin && parts[parts.len() - 1].end == o.end
                                    && parts.iter().all(|x| x.end <= text.len() && x.begin <= x.end && text.is_char_boundary(x.begin) && text.is_char_boundary(x.end)
                                        && x.begin_c == text[..x.begin].chars().count() && x.end_c == text[..x.end].chars().count() && text[x.begin..x.end] == x.surface);
                                rep.count("deprecated_split_results_checked", 1);
                                if !ok {
                                    rep.violation("code_point_offsets", "Morpheme::split", &format!("split({}) of morpheme {} ({:?}, {}..{}) returns {:?}", crate::scen::mode_name(sm), i, o.surface, o.begin, o.end, parts.iter().map(|x| (x.begin, x.end, x.begin_c, x.end_c, x.surface.clone())).collect::<Vec<_>>()), "",
                                        json!({"world_index": wi, "text": text, "mode": crate::scen::mode_name(mode), "world": world.describe(true)}));
                                }
                            }
                            Ok(Err(_)) => {}
                            Err(p) => rep.violation("code_point_offsets", &p.site, &format!("Morpheme::split({}) of morpheme {} or reading its result panics: {}", crate::scen::mode_name(sm), i, p.msg), "",
                                json!({"world_index": wi, "text": text, "mode": crate::scen::mode_name(mode), "world": world.describe(true)})),
                        }
                    }
                }
            }
            // morphemes obtained by splitting on demand, into lists of different provenance
            if text.len() < 10_000 {
                for (i, o) in obs.iter().enumerate() {
                    for sm in [Mode::A, Mode::B] {
                        for which in 0..2 {
                            // (a new list every time: a list that was the target of a split shares the text of the list that was
                            // split, so collecting another analysis into it would overwrite that text for both)
                            let mut other = Tok::new(&world.dict, Mode::C);
                            if which == 1 {
                                let _ = guard(|| other.run("東京都に行く。abc"));
                            }
                            let r = guard(|| {
                                if which == 0 {
                                    out_empty.clear();
                                    t.list.split_into(sm, i, &mut out_empty).map(|b| (b, observe(&out_empty)))
                                } else {
                                    // cleared, but still attached to the text of its own earlier analysis
                                    other.list.clear();
                                    t.list.split_into(sm, i, &mut other.list).map(|b| (b, observe(&other.list)))
                                }
                            });
                            let scen = || json!({"world_index": wi, "text": text, "mode": crate::scen::mode_name(mode), "split_mode": crate::scen::mode_name(sm), "morpheme": i,
                                "output_list": if which == 0 { "created empty" } else { "cleared list that held the result of another text" }, "world": world.describe(true)});
                            match r {
                                Ok(Ok((true, subs))) => {
                                    let _ = o;
                                    let mut bad = None;
                                    for x in subs.iter().rev().take(8) {
                                        if x.end > text.len() || x.begin > x.end || !text.is_char_boundary(x.begin) || !text.is_char_boundary(x.end) {
                                            bad = Some(format!("sub-morpheme range {}..{} is not inside the text", x.begin, x.end));
                                            break;
                                        }
                                        let eb = text[..x.begin].chars().count();
                                        let ee = text[..x.end].chars().count();
                                        if x.begin_c != eb || x.end_c != ee {
                                            bad = Some(format!("sub-morpheme bytes {}..{} = code points {}..{}, reported {}..{}", x.begin, x.end, eb, ee, x.begin_c, x.end_c));
                                            break;
                                        }
                                        let by_cp: String = chars[x.begin_c..x.end_c].iter().collect();
                                        if by_cp != x.surface {
                                            bad = Some(format!("slicing the text by the sub-morpheme's code points gives {:?}, its surface is {:?}", by_cp, x.surface));
                                            break;
                                        }
                                        rep.count("split_morpheme_offsets_checked", 1);
                                    }
                                    if let Some(m) = bad {
                                        rep.violation("code_point_offsets", "split_into", &m, "", scen());
                                    }
                                }
                                Ok(Ok((false, _))) => {}
                                Ok(Err(_)) => {}
                                Err(p) => rep.violation("code_point_offsets", &p.site, &format!("reading the offsets of on-demand split results panics: {}", p.msg), "", scen()),
                            }
                        }
                    }
                }
            }
            if t.normalized != text && text.chars().any(|c| c.len_utf8() > 1) {
                rep.count("tokenizations_rewritten_multibyte", 1);
                rep.nontrivial(fnv(format!("B{}|{}", wi, text).as_bytes()));
            }
        }
    }
    let _ = Mode::C;
}
