//! Small deterministic generator (SplitMix64 seeding + xoshiro256**), no external crates so
//! that streams stay stable.

#[derive(Clone, Debug)]
pub struct Rng {
    s: [u64; 4],
}

fn splitmix(x: &mut u64) -> u64 {
    *x = x.wrapping_add(0x9E3779B97F4A7C15);
    let mut z = *x;
    z = (z ^ (z >> 30)).wrapping_mul(0xBF58476D1CE4E5B9);
    z = (z ^ (z >> 27)).wrapping_mul(0x94D049BB133111EB);
    z ^ (z >> 31)
}

pub fn mix(a: u64, b: u64) -> u64 {
    let mut x = a ^ b.wrapping_mul(0xD6E8FEB86659FD93).rotate_left(23);
    splitmix(&mut x)
}

impl Rng {
    pub fn new(seed: u64) -> Rng {
        let mut x = seed;
        Rng {
            s: [splitmix(&mut x), splitmix(&mut x), splitmix(&mut x), splitmix(&mut x)],
        }
    }

    /// Independent generator for a sub-scenario
    pub fn derive(seed: u64, a: u64, b: u64) -> Rng {
        Rng::new(mix(mix(seed, a), b))
    }

    pub fn next(&mut self) -> u64 {
        let r = self.s[1].wrapping_mul(5).rotate_left(7).wrapping_mul(9);
        let t = self.s[1] << 17;
        self.s[2] ^= self.s[0];
        self.s[3] ^= self.s[1];
        self.s[1] ^= self.s[2];
        self.s[0] ^= self.s[3];
        self.s[2] ^= t;
        self.s[3] = self.s[3].rotate_left(45);
        r
    }

    /// uniform in 0..n (n > 0)
    pub fn below(&mut self, n: usize) -> usize {
        debug_assert!(n > 0);
        (self.next() % (n as u64)) as usize
    }

    /// uniform in lo..=hi
    pub fn range(&mut self, lo: i64, hi: i64) -> i64 {
        debug_assert!(lo <= hi);
        lo + (self.next() % ((hi - lo + 1) as u64)) as i64
    }

    pub fn chance(&mut self, num: u32, den: u32) -> bool {
        (self.next() % den as u64) < num as u64
    }

    pub fn pick<'a, T>(&mut self, items: &'a [T]) -> &'a T {
        &items[self.below(items.len())]
    }

    /// pick from a pool of string literals
    pub fn s<'a>(&mut self, items: &[&'a str]) -> &'a str {
        items[self.below(items.len())]
    }

    pub fn shuffle<T>(&mut self, items: &mut [T]) {
        for i in (1..items.len()).rev() {
            let j = self.below(i + 1);
            items.swap(i, j);
        }
    }
}

/// FNV-1a, used for scenario fingerprints
pub fn fnv(data: &[u8]) -> u64 {
    let mut h: u64 = 0xcbf29ce484222325;
    for b in data {
        h ^= *b as u64;
        h = h.wrapping_mul(0x100000001b3);
    }
    h
}
