//! vh — worker binary of the runtime monitors. One process = one shard of one stage.
//!   vh <property> --tier quick|thorough --seed N --shard i --nshards n --out file [--stage s] [--only idx]

mod dictgen;
mod env;
mod model;
mod report;
mod rng;
mod scen;
mod textgen;

mod mon_c01;
mod mon_c02;
mod mon_c03;
mod normref;
mod mon_c04;
mod mon_c05;
mod mon_c06;
mod mon_c07;
mod mon_c08;
mod mon_c12;
mod mon_c09;
mod mon_c10;
mod mon_c11;
mod fields;
mod mon_c13;
mod mon_c14;
mod mon_c15;
mod mon_c16;
mod mon_c17;
mod mon_c18;
mod mon_c19;
mod mon_c20;

use report::Report;
use std::time::Instant;

#[derive(Clone, Copy, Debug, PartialEq, Eq)]
pub enum Tier {
    Quick,
    Thorough,
}

pub struct Ctx {
    pub prop: String,
    pub tier: Tier,
    pub seed: u64,
    pub shard: u64,
    pub nshards: u64,
    pub only: Option<u64>,
    pub stage: String,
    pub start: Instant,
    /// soft wall-clock budget in seconds: generation of new scenarios stops after it
    /// (never a verdict, only a bound on the amount of work)
    pub budget_s: f64,
    pub scale: f64,
}

impl Ctx {
    pub fn quick(&self) -> bool {
        self.tier == Tier::Quick
    }

    /// scenario count for this tier, scaled
    pub fn n(&self, quick: u64, thorough: u64) -> u64 {
        // thorough counts are upper bounds: the stage's time budget (out_of_time) normally ends the run first
        let base = if self.quick() { quick } else { thorough * 32 };
        ((base as f64) * self.scale).ceil() as u64
    }

    /// indices of the scenarios of this shard
    pub fn indices(&self, total: u64) -> Vec<u64> {
        if let Some(i) = self.only {
            return vec![i];
        }
        (0..total).filter(|i| i % self.nshards == self.shard).collect()
    }

    pub fn out_of_time(&self) -> bool {
        self.only.is_none() && self.start.elapsed().as_secs_f64() > self.budget_s
    }

    /// for monitors with several consecutive parts: true once `fraction` of the budget is used
    pub fn out_of_fraction(&self, fraction: f64) -> bool {
        self.only.is_none() && self.start.elapsed().as_secs_f64() > self.budget_s * fraction
    }
}

fn main() {
    let args: Vec<String> = std::env::args().collect();
    if args.len() < 2 {
        eprintln!("usage: vh <property> [options]");
        std::process::exit(3);
    }
    let mut ctx = Ctx {
        prop: args[1].clone(),
        tier: Tier::Quick,
        seed: 1,
        shard: 0,
        nshards: 1,
        only: None,
        stage: "main".to_string(),
        start: Instant::now(),
        budget_s: 60.0,
        scale: 1.0,
    };
    let mut out = String::from("/dev/stdout");
    // run the monitor of another property under this property's name (C18's Python half lives in C19's driver)
    let mut alias: Option<String> = None;
    let mut i = 2;
    while i < args.len() {
        let val = args.get(i + 1).cloned().unwrap_or_default();
        match args[i].as_str() {
            "--tier" => ctx.tier = if val == "thorough" { Tier::Thorough } else { Tier::Quick },
            "--seed" => ctx.seed = val.parse().expect("seed"),
            "--shard" => ctx.shard = val.parse().expect("shard"),
            "--nshards" => ctx.nshards = val.parse().expect("nshards"),
            "--only" => ctx.only = Some(val.parse().expect("only")),
            "--stage" => ctx.stage = val,
            "--out" => out = val,
            "--budget" => ctx.budget_s = val.parse().expect("budget"),
            "--scale" => ctx.scale = val.parse().expect("scale"),
            "--prop-alias" => alias = Some(val),
            other => {
                eprintln!("unknown option {}", other);
                std::process::exit(3);
            }
        }
        i += 2;
    }
    report::install_panic_hook();
    let progress = format!("{}.progress", out);
    let mut rep = Report::new(&ctx.prop, if out == "/dev/stdout" { None } else { Some(&progress) });
    rep.seed = ctx.seed;
    rep.stage = ctx.stage.clone();
    rep.tier = if ctx.quick() { "quick".to_string() } else { "thorough".to_string() };
    let dispatch = alias.clone().unwrap_or_else(|| ctx.prop.clone());
    match dispatch.as_str() {
        "C01" => mon_c01::run(&ctx, &mut rep),
        "C02" => mon_c02::run(&ctx, &mut rep),
        "C17" => mon_c17::run(&ctx, &mut rep),
        "C19" => mon_c19::run(&ctx, &mut rep),
        "C18" => mon_c18::run(&ctx, &mut rep),
        "C06" => mon_c06::run(&ctx, &mut rep),
        "C20" => mon_c20::run(&ctx, &mut rep),
        "C12" => mon_c12::run(&ctx, &mut rep),
        "C09" => mon_c09::run(&ctx, &mut rep),
        "C10" => mon_c10::run(&ctx, &mut rep),
        "C11" => mon_c11::run(&ctx, &mut rep),
        "C13" => mon_c13::run(&ctx, &mut rep),
        "C14" => mon_c14::run(&ctx, &mut rep),
        "C15" => mon_c15::run(&ctx, &mut rep),
        "C16" => mon_c16::run(&ctx, &mut rep),
        "C07" => mon_c07::run(&ctx, &mut rep),
        "C03" => mon_c03::run(&ctx, &mut rep),
        "C05" => mon_c05::run(&ctx, &mut rep),
        "C04" => mon_c04::run(&ctx, &mut rep),
        "C08" => mon_c08::run(&ctx, &mut rep),
        other => {
            eprintln!("unknown property {}", other);
            std::process::exit(3);
        }
    }
    rep.write(&out);
}
