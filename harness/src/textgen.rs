//! Hostile alphabet and text generators.

use crate::rng::Rng;

pub const HIRA: &[&str] = &["あ", "い", "う", "え", "お", "か", "き", "の", "と", "っ", "で", "や"];
pub const KATA: &[&str] = &["ア", "イ", "ウ", "カ", "キ", "ァ", "ィ", "ャ", "ー", "ヽ", "ン", "ッ"];
pub const KANJI: &[&str] = &["京", "都", "東", "大", "学", "生", "人", "々", "行", "会", "社"];
pub const KNUM: &[&str] = &["一", "二", "三", "五", "九", "〇", "十", "百", "千", "万", "億", "兆"];
pub const ASCII_L: &[&str] = &["a", "b", "c", "x", "y", "z"];
pub const ASCII_U: &[&str] = &["A", "B", "C", "Z"];
pub const DIGITS: &[&str] = &["0", "1", "2", "3", "5", "9"];
pub const PUNCT: &[&str] = &[",", ".", "-", " ", "!", "?", "(", ")", "/", "'", "#"];
pub const FULLW: &[&str] = &["ａ", "Ａ", "ｂ", "１", "２", "，", "．", "（", "）", "　"];
pub const JPUNCT: &[&str] = &["。", "、", "！", "？", "「", "」", "（", "）", "・", "…", "〜", "♪"];
pub const GREEK_CYR: &[&str] = &["α", "β", "Ω", "д", "Ж", "я"];
/// characters whose NFKC / lower-case form differs, expands or shrinks
pub const EXPANDING: &[&str] = &["㍿", "ﷺ", "㌔", "ｶ", "ﾞ", "ｶﾞ", "İ", "ǅ", "ß", "ﬁ", "Ⅳ", "⑩", "㈱", "½", "ẞ", "™", "ｱ", "￥"];
/// controls, combining marks, joiners, selectors, emoji, astral, unassigned, private use
pub const HOSTILE: &[&str] = &[
    "\u{0}", "\u{1}", "\t", "\n", "\r", "\u{7f}", "\u{a0}", "\u{301}", "\u{3099}", "\u{309a}", "\u{200d}",
    "\u{200c}", "\u{fe0f}", "\u{e0100}", "👍", "🏻", "👨\u{200d}👩\u{200d}👧", "𠮷", "\u{20bb7}", "\u{378}", "\u{e000}",
    "\u{10ffff}", "\u{fffd}", "\u{feff}", "\u{2028}", "\u{202e}", "\u{d7ff}", "\u{ffff}", "e\u{301}", "か\u{3099}",
];

pub const ALL_POOLS: &[&[&str]] = &[
    HIRA, KATA, KANJI, KNUM, ASCII_L, ASCII_U, DIGITS, PUNCT, FULLW, JPUNCT, GREEK_CYR, EXPANDING, HOSTILE,
];

/// Pools whose characters are not changed by the default normalisation (safe for dictionary keys)
pub const KEY_POOLS: &[&[&str]] = &[HIRA, KATA, KANJI, KNUM, ASCII_L, DIGITS, JPUNCT, GREEK_CYR];

pub fn pick_char(rng: &mut Rng) -> &'static str {
    let pool = *rng.pick(ALL_POOLS);
    rng.s(pool)
}

pub fn noise(rng: &mut Rng, max_chars: usize) -> String {
    let n = rng.below(max_chars + 1);
    let mut s = String::new();
    // runs from the same pool are more interesting than uniform noise
    let mut i = 0;
    while i < n {
        let pool = *rng.pick(ALL_POOLS);
        let run = 1 + rng.below(4);
        for _ in 0..run {
            s.push_str(rng.s(pool));
            i += 1;
        }
    }
    s
}

/// variants of a key as it may appear in raw text: identity, full-width, upper case
pub fn spell_variant(rng: &mut Rng, key: &str) -> String {
    match rng.below(6) {
        0 => key.to_uppercase(),
        1 => key
            .chars()
            .map(|c| {
                let cp = c as u32;
                if (0x21..=0x7e).contains(&cp) {
                    char::from_u32(cp + 0xfee0).unwrap()
                } else {
                    c
                }
            })
            .collect(),
        _ => key.to_string(),
    }
}

/// Text made of dictionary keys, near misses, numerals, katakana runs, yomigana and noise
pub fn text_from_keys(rng: &mut Rng, keys: &[String], max_parts: usize) -> String {
    let parts = rng.below(max_parts + 1);
    let mut s = String::new();
    for _ in 0..parts {
        match rng.below(12) {
            0..=4 if !keys.is_empty() => {
                let k = rng.pick(keys);
                s.push_str(&spell_variant(rng, k));
            }
            5 if !keys.is_empty() => {
                // near miss: key without its last char, or with one extra
                let k = rng.pick(keys);
                let mut cs: Vec<char> = k.chars().collect();
                if rng.chance(1, 2) && cs.len() > 1 {
                    cs.pop();
                } else {
                    cs.extend(pick_char(rng).chars());
                }
                s.extend(cs.iter());
            }
            6 => {
                for _ in 0..1 + rng.below(5) {
                    let pool = if rng.chance(1, 2) { DIGITS } else { KNUM };
                    s.push_str(rng.s(pool));
                    if rng.chance(1, 6) {
                        s.push_str(rng.s(&[",", ".", "，", "．"]));
                    }
                }
            }
            7 => {
                for _ in 0..1 + rng.below(6) {
                    s.push_str(rng.s(KATA));
                }
            }
            8 => {
                // yomigana-like
                s.push_str(rng.s(KANJI));
                s.push_str(rng.s(&["(", "（"]));
                for _ in 0..rng.below(6) {
                    let pool = if rng.chance(1, 2) { HIRA } else { KATA };
                    s.push_str(rng.s(pool));
                }
                if rng.chance(5, 6) {
                    s.push_str(rng.s(&[")", "）"]));
                }
            }
            9 => {
                // prolonged sound marks
                s.push_str(rng.s(KATA));
                // incl. marks that an earlier plugin resizes (full-width hyphen, half-width prolonged mark)
                for _ in 0..rng.below(4) {
                    s.push_str(rng.s(&["ー", "-", "〜", "⁓", "〰", "－", "ｰ", "－"]));
                }
            }
            _ => s.push_str(&noise(rng, 4)),
        }
    }
    s
}

pub fn random_key(rng: &mut Rng, max_chars: usize) -> String {
    let n = 1 + rng.below(max_chars);
    let pool = *rng.pick(KEY_POOLS);
    let mut s = String::new();
    for _ in 0..n {
        if rng.chance(1, 8) {
            let p2 = *rng.pick(KEY_POOLS);
            s.push_str(rng.s(p2));
        } else {
            s.push_str(rng.s(pool));
        }
    }
    s
}

/// A text of about `target` bytes: either chunks made of dictionary keys and noise, cycled, or a plain
/// repetition of units that no input-text plugin edits (so that the original and the normalised length agree)
pub fn long_text(rng: &mut Rng, keys: &[String], target: usize) -> String {
    let mut s = String::with_capacity(target + 64);
    if rng.chance(1, 2) {
        let units: Vec<String> = (0..4)
            .map(|_| {
                let k = if !keys.is_empty() && rng.chance(1, 2) { rng.pick(keys).clone() } else { String::new() };
                format!("{}{}{}", rng.s(HIRA), rng.s(ASCII_L), k)
            })
            .collect();
        while s.len() < target {
            let u: &String = rng.pick(&units[..]);
            s.push_str(u);
        }
    } else {
        let chunks: Vec<String> = (0..16).map(|_| text_from_keys(rng, keys, 6)).filter(|c| !c.is_empty()).collect();
        if chunks.is_empty() {
            return "あ".repeat(target / 3);
        }
        let mut i = 0;
        while s.len() < target {
            s.push_str(&chunks[i % chunks.len()]);
            i += 1;
        }
    }
    s
}
