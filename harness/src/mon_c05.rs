//! C05 — compile -> load round trip preserves every field, deterministically and
//! independently of the alignment of the loaded bytes.

use serde_json::json;
use sudachi::analysis::stateless_tokenizer::DictionaryAccess;
use sudachi::dic::dictionary::JapaneseDictionary;
use sudachi::dic::word_id::WordId;

use crate::dictgen::{self, DictOpts};
use crate::env::{self, Place};
use crate::model::{Entry, Lexicon, Ref};
use crate::report::{clip, guard, Report};
use crate::rng::{fnv, Rng};
use crate::scen::{build_world_from, PluginOpts, World};
use crate::Ctx;

fn long_string(rng: &mut Rng, units: usize) -> String {
    // `units` UTF-16 code units
    match rng.below(3) {
        0 => "x".repeat(units),
        1 => "あ".repeat(units),
        _ => {
            let mut s = "𠮷".repeat(units / 2);
            if units % 2 == 1 {
                s.push('京');
            }
            s
        }
    }
}

pub fn boundary_rows(rng: &mut Rng, lex: &mut Lexicon, nid: i64, heavy: bool) {
    let pool = dictgen::pos_pool();
    let lens: &[usize] = if heavy { &[1, 126, 127, 128, 129, 255, 256, 1000, 10922] } else { &[1, 126, 127, 128, 129, 255, 256] };
    for _ in 0..1 + rng.below(4) {
        let key = format!("境{}", crate::textgen::random_key(rng, 3));
        let mut e = Entry::simple(&key, rng.range(0, nid - 1) as i16, rng.range(0, nid - 1) as i16, rng.range(-100, 9000) as i16, rng.pick(&pool));
        let n = *rng.pick(lens);
        match rng.below(4) {
            0 => e.headword = long_string(rng, n),
            1 => e.reading = long_string(rng, n),
            2 => e.norm = long_string(rng, n),
            _ => {
                e.headword = long_string(rng, n);
                e.reading = e.headword.clone();
                e.norm = long_string(rng, n);
            }
        }
        if rng.chance(1, 3) {
            // long index key (bytes): the 1/2-byte prefix of head_word_length
            let kn = *rng.pick(&[126usize, 127, 128, 255]);
            e.key = "k".repeat(kn);
            if rng.chance(1, 2) {
                e.headword = e.key.clone();
            }
        }
        if rng.chance(1, 3) {
            let cnt = *rng.pick(&[1usize, 2, 63, 64, 65, 100, 126, 127]);
            e.synonyms = (0..cnt).map(|i| (i as u32) * 7919 % 1_000_000).collect();
        }
        if rng.chance(1, 4) && !lex.entries.is_empty() {
            let cnt = *rng.pick(&[1usize, 63, 64, 65, 127]);
            let dic = if lex.user { 1 } else { 0 };
            e.word_structure = (0..cnt).map(|_| Ref { dic, row: rng.below(lex.entries.len()), inline: false }).collect();
        }
        if rng.chance(1, 6) {
            e.escape = true;
        }
        lex.entries.push(e);
    }
    // empty-vs-equal forms
    if rng.chance(1, 2) {
        let mut e = Entry::simple(&format!("空{}", crate::textgen::random_key(rng, 2)), 0, 0, 100, &pool[0]);
        match rng.below(3) {
            0 => e.reading = String::new(),
            1 => e.norm = String::new(),
            _ => {
                e.reading = String::new();
                e.norm = String::new();
            }
        }
        lex.entries.push(e);
    }
}

/// Everything observable about one entry, as text (so that loads can be compared wholesale)
fn observe_entry(dict: &JapaneseDictionary, dic: usize, row: usize) -> Result<Vec<String>, String> {
    let wid = WordId::new(dic as u8, row as u32);
    let lex = dict.lexicon();
    let wi = lex.get_word_info(wid).map_err(|e| format!("get_word_info failed: {:?}", e))?;
    let (l, r, c) = lex.get_word_param(wid);
    let pos = dict.grammar().pos_components(wi.pos_id()).join(",");
    let ids = |v: &[WordId]| v.iter().map(|w| format!("{}:{}", w.dic(), w.word())).collect::<Vec<_>>().join("/");
    Ok(vec![
        wi.surface().to_string(),
        wi.head_word_length().to_string(),
        pos,
        format!("{},{}", l, r),
        c.to_string(),
        wi.reading_form().to_string(),
        wi.normalized_form().to_string(),
        wi.dictionary_form_word_id().to_string(),
        wi.dictionary_form().to_string(),
        ids(wi.a_unit_split()),
        ids(wi.b_unit_split()),
        ids(wi.word_structure()),
        wi.synonym_group_ids().iter().map(|x| x.to_string()).collect::<Vec<_>>().join("/"),
    ])
}

const FIELD_NAMES: [&str; 13] = [
    "headword", "head_word_length", "part_of_speech", "connection ids", "cost", "reading", "normalised form", "dictionary form id",
    "dictionary form", "A units", "B units", "word structure", "synonym group ids",
];

fn expected_entry(world: &World, dic: usize, row: usize) -> Vec<Option<String>> {
    let lex = world.lexicon_of(dic);
    let e = &lex.entries[row];
    let refs = |v: &[Ref]| {
        v.iter()
            .map(|r| format!("{}:{}", if r.dic == 0 { 0 } else { dic }, r.row))
            .collect::<Vec<_>>()
            .join("/")
    };
    let (df_id, df) = match &e.dic_form {
        None => ("-1".to_string(), e.headword.clone()),
        Some(r) => (r.row.to_string(), lex.entries[r.row].headword.clone()),
    };
    // an empty reading / normalised form in the CSV is the format's spelling of "same as headword":
    // nothing specific is demanded for it
    let opt = |s: &String| if s.is_empty() { None } else { Some(s.clone()) };
    vec![
        Some(e.headword.clone()),
        Some(e.key.len().to_string()),
        Some(e.pos.join(",")),
        Some(format!("{},{}", e.left, e.right)),
        if e.cost == i16::MIN && lex.user { None } else { Some(e.cost.to_string()) },
        opt(&e.reading),
        opt(&e.norm),
        Some(df_id),
        Some(df),
        Some(refs(&e.split_a)),
        Some(refs(&e.split_b)),
        Some(refs(&e.word_structure)),
        Some(e.synonyms.iter().map(|x| x.to_string()).collect::<Vec<_>>().join("/")),
    ]
}

fn world_inputs(seed: u64, wi: u64, miri: bool) -> (crate::model::Matrix, crate::model::Lexicon, Rng) {
    let mut rng = Rng::derive(seed, 0xC05, wi);
    let dopts = DictOpts { cost_extremes: true, max_entries: if miri { 10 } else { 40 }, ..DictOpts::default() };
    let mut matrix = dictgen::gen_matrix(&mut rng, &dopts);
    let mut sys = dictgen::gen_system(&mut rng, &dopts, &matrix);
    boundary_rows(&mut rng, &mut sys, matrix.nid() as i64, wi % 16 == 0 && !miri);
    if wi % 3 == 1 {
        // a matrix text that lists only part of the cells: the others cost 0
        let mut r2 = Rng::derive(seed, 0xC05D, wi);
        for c in matrix.cells.iter_mut() {
            if r2.chance(1, 3) {
                *c = 0;
            }
        }
        matrix.sparse = true;
    }
    (matrix, sys, rng)
}

pub fn run(ctx: &Ctx, rep: &mut Report) {
    let miri = ctx.stage == "miri";
    if ctx.stage == "child" {
        // second process of the determinism check: compile world `only` and print a digest of the bytes
        let wi = ctx.only.unwrap_or(0);
        let (matrix, sys, _) = world_inputs(ctx.seed, wi, false);
        match env::compile_system(sys.to_csv(None).as_bytes(), matrix.to_text().as_bytes()) {
            Ok(b) => println!("DIGEST {:016x} {}", fnv(&b), b.len()),
            Err(e) => println!("REJECTED {:?}", e),
        }
        std::process::exit(0);
    }
    let n_worlds = match ctx.stage.as_str() {
        "miri" => ctx.nshards,
        "valgrind" => ctx.nshards * 3,
        "asan" => ctx.n(160, 1600),
        _ => ctx.n(320, 12000),
    };
    for wi in ctx.indices(n_worlds) {
        if ctx.out_of_time() {
            rep.notes.push(format!("stopped at world {} (time budget)", wi));
            break;
        }
        rep.progress_idx(wi, "C05 world");
        let dopts = DictOpts { cost_extremes: true, max_entries: if miri { 10 } else { 40 }, ..DictOpts::default() };
        let (matrix, sys, mut rng) = world_inputs(ctx.seed, wi, miri);
        let mut popts = PluginOpts::none();
        popts.n_users = if miri { rng.below(2) } else { *rng.pick(&[0usize, 0, 1, 2, 3]) };
        let world = match guard(|| build_world_from(&mut rng, &dopts, matrix, sys, popts, Place::Owned)) {
            Ok(Ok(w)) => w,
            Ok(Err(e)) if e.starts_with("user dictionary rejected") => {
                // the generator only writes references that the documented resolution rules lead to their targets
                rep.eval();
                rep.violation("valid_input_rejected", "DictBuilder(user)", &clip(&e, 300), "", json!({"world_index": wi}));
                continue;
            }
            Ok(Err(e)) if e.starts_with("load failed") || e.starts_with("plain load failed") => {
                // the compiler accepted the inputs, so loading what it wrote must succeed
                rep.eval();
                rep.violation("compiled_dictionary_does_not_load", "from_cfg_storage", &clip(&e, 300), "", json!({"world_index": wi}));
                continue;
            }
            Ok(Err(e)) => {
                rep.count("worlds_rejected", 1);
                rep.notes.push(format!("world {}: {}", wi, clip(&e, 300)));
                continue;
            }
            Err(p) => {
                rep.skipped_panic(&p, json!({"world": wi, "stage": "build"}));
                continue;
            }
        };
        rep.count("worlds", 1);
        if world.matrix.sparse {
            rep.count("worlds_with_sparse_matrix_text", 1);
        }
        rep.eval();
        let scenario = |extra: &str| json!({"world_index": wi, "detail": extra, "world": world.describe(true)});
        let mut world_ok = true;

        // 1. every field of every entry
        let mut base_obs: Vec<Vec<String>> = vec![];
        for dic in 0..=world.users.len() {
            for row in 0..world.lexicon_of(dic).entries.len() {
                let obs = match guard(|| observe_entry(&world.dict, dic, row)) {
                    Err(p) => {
                        rep.violation("read_panic", &p.site, &p.msg, "", scenario(&format!("dictionary {} row {}", dic, row)));
                        world_ok = false;
                        base_obs.push(vec![]);
                        continue;
                    }
                    Ok(Err(e)) => {
                        rep.violation("read_error", "get_word_info", &e, "", scenario(&format!("dictionary {} row {}", dic, row)));
                        world_ok = false;
                        base_obs.push(vec![]);
                        continue;
                    }
                    Ok(Ok(o)) => o,
                };
                let exp = expected_entry(&world, dic, row);
                for (fi, ex) in exp.iter().enumerate() {
                    if let Some(ex) = ex {
                        rep.count("fields_compared", 1);
                        if ex != &obs[fi] {
                            rep.violation("field_mismatch", FIELD_NAMES[fi],
                                &format!("dictionary {} row {} ({:?}): declared {} = {:?}, loaded {:?}", dic, row, clip(&world.lexicon_of(dic).entries[row].key, 20), FIELD_NAMES[fi], clip(ex, 80), clip(&obs[fi], 80)),
                                "", scenario(&format!("csv row: {}", clip(&world.lexicon_of(dic).row_csv(&world.lexicon_of(dic).entries[row], Some(&world.sys)), 400))));
                            world_ok = false;
                            break;
                        }
                    }
                }
                rep.count("entries_compared", 1);
                // the same strings when only some fields are requested (the reader then skips over the others)
                {
                    use sudachi::dic::subset::InfoSubset;
                    let wid = WordId::new(dic as u8, row as u32);
                    for sub in [InfoSubset::SURFACE | InfoSubset::READING_FORM | InfoSubset::POS_ID, InfoSubset::READING_FORM, InfoSubset::SYNONYM_GROUP_ID | InfoSubset::NORMALIZED_FORM] {
                        let full = world.dict.lexicon().get_word_info(wid);
                        let part = guard(|| world.dict.lexicon().get_word_info_subset(wid, sub.normalize()));
                        match (full, part) {
                            (Ok(f), Ok(Ok(p))) => {
                                rep.count("partial_reads_compared", 1);
                                let bad = (sub.contains(InfoSubset::READING_FORM) && f.reading_form() != p.reading_form())
                                    || (sub.contains(InfoSubset::NORMALIZED_FORM) && f.normalized_form() != p.normalized_form())
                                    || (sub.contains(InfoSubset::SURFACE) && f.surface() != p.surface())
                                    || (sub.contains(InfoSubset::SYNONYM_GROUP_ID) && f.synonym_group_ids() != p.synonym_group_ids());
                                if bad {
                                    rep.violation("field_mismatch", "get_word_info_subset", &format!("dictionary {} row {}: with only {:?} requested the strings differ from a full read", dic, row, sub), "", scenario(&format!("dictionary {} row {}", dic, row)));
                                    world_ok = false;
                                }
                            }
                            (Ok(_), Ok(Err(e))) => {
                                rep.violation("read_error", "get_word_info_subset", &format!("dictionary {} row {} with {:?}: {:?}", dic, row, sub, e), "", scenario(""));
                                world_ok = false;
                            }
                            (Ok(_), Err(p)) => {
                                rep.violation("read_panic", &p.site, &format!("dictionary {} row {} with {:?}: {}", dic, row, sub, p.msg), "", scenario(""));
                                world_ok = false;
                            }
                            _ => {}
                        }
                    }
                    // the entry is reached through the index under its own number, if and only if it is declared indexed
                    let e = &world.lexicon_of(dic).entries[row];
                    if !e.key.is_empty() {
                        let found = guard(|| world.dict.lexicon().lookup(e.key.as_bytes(), 0).any(|x| x.end == e.key.len() && x.word_id == wid));
                        rep.count("index_lookups_compared", 1);
                        match found {
                            Ok(f) if f == e.indexed() => {}
                            Ok(f) => {
                                rep.violation("field_mismatch", "index", &format!("dictionary {} row {} ({:?}, left id {}): found by lookup under its own number = {}", dic, row, clip(&e.key, 20), e.left, f), "", scenario(""));
                                world_ok = false;
                            }
                            Err(p) => {
                                rep.violation("read_panic", &p.site, &p.msg, "", scenario("lookup"));
                                world_ok = false;
                            }
                        }
                    }
                }
                base_obs.push(obs);
            }
        }

        // 2. connection matrix, all pairs
        let cm = world.dict.grammar().conn_matrix();
        if cm.num_left() != world.matrix.nl || cm.num_right() != world.matrix.nr {
            rep.violation("matrix_shape", "conn_matrix", &format!("declared {}x{}, loaded {}x{}", world.matrix.nl, world.matrix.nr, cm.num_left(), cm.num_right()), "", scenario(""));
            world_ok = false;
        } else {
            'outer: for a in 0..world.matrix.nl {
                for b in 0..world.matrix.nr {
                    rep.count("matrix_cells_compared", 1);
                    let got = cm.cost(a as u16, b as u16);
                    if got != world.matrix.cost(a, b) {
                        rep.violation("matrix_cell", "conn_matrix", &format!("line \"{} {} {}\" but cost({},{}) = {}", a, b, world.matrix.cost(a, b), a, b, got), "", scenario(""));
                        world_ok = false;
                        break 'outer;
                    }
                }
            }
        }

        // 3. determinism: compile the same inputs again, byte comparison
        match guard(|| env::compile_system(world.sys_csv.as_bytes(), world.matrix_text.as_bytes())) {
            Ok(Ok(b2)) => {
                rep.count("recompilations_compared", 1);
                if b2 != world.sys_bytes {
                    let at = b2.iter().zip(world.sys_bytes.iter()).position(|(x, y)| x != y).unwrap_or(b2.len().min(world.sys_bytes.len()));
                    rep.violation("nondeterministic_output", "compile(system)", &format!("two compilations differ at byte {} (lengths {} / {})", at, world.sys_bytes.len(), b2.len()), "", scenario(""));
                    world_ok = false;
                }
            }
            Ok(Err(e)) => rep.violation("nondeterministic_output", "compile(system)", &format!("second compilation failed: {:?}", e), "", scenario("")),
            Err(p) => rep.skipped_panic(&p, json!({"world": wi, "stage": "recompile"})),
        }
        // one builder compiled twice (a scratch run first, say), and a sink that accepts only part of every buffer it is
        // handed (the Write contract allows that): the same bytes every time
        if wi % 4 == 3 {
            struct Chunky {
                data: Vec<u8>,
                max: usize,
            }
            impl std::io::Write for Chunky {
                fn write(&mut self, buf: &[u8]) -> std::io::Result<usize> {
                    let n = buf.len().min(self.max);
                    self.data.extend_from_slice(&buf[..n]);
                    Ok(n)
                }
                fn flush(&mut self) -> std::io::Result<()> {
                    Ok(())
                }
            }
            let max = *rng.pick(&[1usize, 7, 509, 4096]);
            let r = guard(|| -> Result<(Vec<u8>, Vec<u8>, Vec<u8>), String> {
                use sudachi::dic::build::DictBuilder;
                let mut b = DictBuilder::new_system();
                b.set_compile_time(std::time::UNIX_EPOCH + std::time::Duration::from_secs(env::FIXED_TIME_SECS));
                b.set_description(env::DESCRIPTION);
                b.read_conn(world.matrix_text.as_bytes()).map_err(|e| format!("{:?}", e))?;
                b.read_lexicon(world.sys_csv.as_bytes()).map_err(|e| format!("{:?}", e))?;
                b.resolve().map_err(|e| format!("{:?}", e))?;
                let mut first = Vec::new();
                b.compile(&mut first).map_err(|e| format!("{:?}", e))?;
                let mut second = Vec::new();
                b.compile(&mut second).map_err(|e| format!("second compile: {:?}", e))?;
                let mut third = Chunky { data: Vec::new(), max };
                b.compile(&mut third).map_err(|e| format!("compile into a sink taking {} bytes per call: {:?}", max, e))?;
                Ok((first, second, third.data))
            });
            match r {
                Ok(Ok((a, b, c))) => {
                    rep.count("repeated_compilations_of_one_builder", 1);
                    if a != world.sys_bytes || b != a {
                        rep.violation("nondeterministic_output", "compile(system)", &format!("compiling the same builder twice gives {} and {} bytes (a new builder: {})", a.len(), b.len(), world.sys_bytes.len()), "", scenario("same builder twice"));
                        world_ok = false;
                    } else if c != a {
                        rep.violation("nondeterministic_output", "compile(system)", &format!("a sink that takes at most {} bytes per write call received {} bytes that differ from the {} written to a Vec", max, c.len(), a.len()), "", scenario("chunking sink"));
                        world_ok = false;
                    }
                }
                Ok(Err(e)) => {
                    rep.violation("nondeterministic_output", "compile(system)", &format!("the inputs compile with a new builder, but: {}", clip(&e, 200)), "", scenario("same builder twice / chunking sink"));
                    world_ok = false;
                }
                Err(p) => rep.skipped_panic(&p, json!({"world": wi, "stage": "repeated compile"})),
            }
        }
        // the same rows with other line conventions (no line break after the last line, CR LF, blank lines in the matrix
        // text) are the same inputs: same bytes
        if wi % 4 == 2 {
            let mut csv2 = world.sys_csv.clone();
            let mut m2 = world.matrix_text.clone();
            let what = match rng.below(4) {
                0 => {
                    while csv2.ends_with('\n') {
                        csv2.pop();
                    }
                    "no line break after the last lexicon row"
                }
                1 => {
                    while m2.ends_with('\n') {
                        m2.pop();
                    }
                    "no line break after the last matrix line"
                }
                2 => {
                    m2 = m2.replace('\n', "\r\n");
                    "CR LF in the matrix text"
                }
                _ => {
                    m2 = m2.replacen('\n', "\n\n", 1) + "\n\n";
                    "blank lines in the matrix text"
                }
            };
            // (rows with a quoted line break inside a field are left alone)
            if !world.sys_csv.contains("\"\n") {
                match guard(|| env::compile_system(csv2.as_bytes(), m2.as_bytes())) {
                    Ok(Ok(b2)) => {
                        rep.count("line_convention_variants_compared", 1);
                        if b2 != world.sys_bytes {
                            rep.violation("nondeterministic_output", "compile(system)", &format!("{}: the compiled bytes differ from those of the plain text", what), "", scenario(what));
                            world_ok = false;
                        }
                    }
                    Ok(Err(e)) => {
                        rep.violation("field_mismatch", "compile(system)", &format!("{}: the same rows are rejected: {:?}", what, e), "", scenario(what));
                        world_ok = false;
                    }
                    Err(p) => rep.skipped_panic(&p, json!({"world": wi, "stage": "line conventions"})),
                }
            }
        }
        // ... and once more in a second process (different address space, different hash seeds)
        if wi % 8 == 0 && !miri && ctx.stage == "main" {
            if let Ok(exe) = std::env::current_exe() {
                let out = std::process::Command::new(exe).args(["C05", "--stage", "child", "--seed", &ctx.seed.to_string(), "--only", &wi.to_string(), "--out", "/dev/null"]).output();
                if let Ok(o) = out {
                    let txt = String::from_utf8_lossy(&o.stdout).to_string();
                    let mine = format!("DIGEST {:016x} {}", fnv(&world.sys_bytes), world.sys_bytes.len());
                    if txt.trim().starts_with("DIGEST") {
                        rep.count("recompilations_in_a_second_process", 1);
                        if txt.trim() != mine {
                            rep.violation("nondeterministic_output", "compile(system) in a second process", &format!("this process: {}, second process: {}", mine, txt.trim()), "", scenario(""));
                            world_ok = false;
                        }
                    } else {
                        rep.notes.push(format!("child compile: {}", clip(&txt, 100)));
                    }
                }
            }
        }
        // ... and through the command-line builder (`sudachi build`), with the lexicon split over several files
        // that are named so that their command-line order is not their alphabetical order
        if wi % 4 == 1 && ctx.stage == "main" {
            match cli_build(&world, &mut rng) {
                Ok(None) => rep.count("cli_not_available", 1),
                Ok(Some((files, bytes))) => {
                    rep.count("cli_builds_compared", 1);
                    if files > 1 {
                        rep.count("cli_builds_from_several_files", 1);
                    }
                    let same = bytes.len() == world.sys_bytes.len() && bytes.len() > 16 && bytes[..8] == world.sys_bytes[..8] && bytes[16..] == world.sys_bytes[16..];
                    if !same {
                        let at = bytes.iter().zip(world.sys_bytes.iter()).enumerate().position(|(i, (x, y))| x != y && !(8..16).contains(&i)).unwrap_or(bytes.len().min(world.sys_bytes.len()));
                        rep.violation("cli_build_differs", "sudachi build", &format!("the dictionary written by `sudachi build` from the same rows in {} files differs from the library's output at byte {} (lengths {} / {}; creation time excluded)", files, at, bytes.len(), world.sys_bytes.len()), "", scenario(""));
                        world_ok = false;
                    }
                }
                Err(e) => {
                    rep.violation("cli_build_differs", "sudachi build", &format!("the library compiles these inputs but `sudachi build` fails: {}", clip(&e, 300)), "", scenario(""));
                    world_ok = false;
                }
            }
        }
        if !world.users.is_empty() {
            let pool = dictgen::pos_pool();
            let plain_cfg = env::config(&env::minimal_cfg(&pool[0]), &world.res);
            if let Ok(plain) = env::load(&plain_cfg, &world.sys_bytes, &[], Place::Owned) {
                for (ui, csv) in world.user_csvs.iter().enumerate() {
                    if let Ok(Ok(b2)) = guard(|| env::compile_user(&plain, csv.as_bytes())) {
                        rep.count("recompilations_compared", 1);
                        if b2 != world.user_bytes[ui] {
                            rep.violation("nondeterministic_output", "compile(user)", &format!("user dictionary {} compiles to different bytes", ui), "", scenario(""));
                            world_ok = false;
                        }
                    }
                }
            }
        }

        // 4. alignment independence
        let cfg = env::config(&world.cfg_json, &world.res);
        // under Miri every base alignment 0..7: both branches of CowArray::from_bytes and the unaligned
        // reads of the word id table run under the interpreter's alignment check
        let offsets: Vec<usize> = if wi % 8 == 0 || miri { (0..8).collect() } else { vec![1, 1 + rng.below(7)] };
        for off in offsets {
            let d2 = match guard(|| env::load(&cfg, &world.sys_bytes, &world.user_bytes, Place::Offset(off))) {
                Ok(Ok(d)) => d,
                Ok(Err(e)) => {
                    rep.violation("alignment_dependence", "load", &format!("load from base+{} fails: {:?}", off, e), "", scenario(""));
                    world_ok = false;
                    continue;
                }
                Err(p) => {
                    rep.violation("alignment_dependence", &p.site, &format!("load from base+{} panics: {}", off, p.msg), "", scenario(""));
                    world_ok = false;
                    continue;
                }
            };
            rep.count("loads_at_other_alignment", 1);
            let mut k = 0usize;
            'cmp: for dic in 0..=world.users.len() {
                for row in 0..world.lexicon_of(dic).entries.len() {
                    let o2 = guard(|| observe_entry(&d2, dic, row));
                    let same = match &o2 {
                        Ok(Ok(o)) => *o == base_obs[k],
                        _ => base_obs[k].is_empty(),
                    };
                    if !same {
                        rep.violation("alignment_dependence", "observe_entry", &format!("dictionary {} row {} reads differently from base+{}: {:?} vs {:?}", dic, row, off, o2.as_ref().ok(), base_obs[k]), "", scenario(""));
                        world_ok = false;
                        break 'cmp;
                    }
                    k += 1;
                }
            }
            let cm2 = d2.grammar().conn_matrix();
            for a in 0..world.matrix.nl {
                for b in 0..world.matrix.nr {
                    if cm2.cost(a as u16, b as u16) != cm.cost(a as u16, b as u16) {
                        rep.violation("alignment_dependence", "conn_matrix", &format!("cost({},{}) differs when loaded from base+{}", a, b, off), "", scenario(""));
                        world_ok = false;
                    }
                }
            }
        }
        if world_ok {
            let has_refs = world.sys.entries.iter().any(|e| !e.split_a.is_empty() || !e.split_b.is_empty());
            if has_refs {
                rep.nontrivial(fnv(world.sys_csv.as_bytes()));
            }
            if rep.want_sample() && !world.users.is_empty() {
                rep.sample(json!({"matrix": format!("{}x{}", world.matrix.nl, world.matrix.nr), "system_rows": world.sys.entries.len(),
                    "user_rows": world.users.iter().map(|u| u.entries.len()).collect::<Vec<_>>(),
                    "first_rows": clip(&world.sys_csv, 500)}));
            }
        }
    }
}

/// Compiles the world's system lexicon with the command-line tool. Ok(None): the tool is not available.
fn cli_build(world: &World, rng: &mut Rng) -> Result<Option<(usize, Vec<u8>)>, String> {
    let cli = std::env::var("VH_CLI").unwrap_or_default();
    if cli.is_empty() || !std::path::Path::new(&cli).exists() {
        return Ok(None);
    }
    let dir = env::ResDir::new();
    dir.write("matrix.def", &world.matrix_text);
    let rows: Vec<String> = world.sys.entries.iter().map(|e| world.sys.row_csv(e, None)).collect();
    let nfiles = (1 + rng.below(3)).min(rows.len().max(1));
    // cut points
    let mut cuts: Vec<usize> = (0..nfiles - 1).map(|_| 1 + rng.below(rows.len().max(2) - 1)).collect();
    cuts.sort();
    cuts.dedup();
    let names = ["z_first.csv", "m_second.csv", "a_third.csv"];
    let mut files = vec![];
    let mut start = 0;
    for (i, end) in cuts.iter().chain(std::iter::once(&rows.len())).enumerate() {
        let mut text = String::new();
        for r in &rows[start..*end] {
            text.push_str(r);
            text.push('\n');
        }
        dir.write(names[i], &text);
        files.push(dir.path.join(names[i]));
        start = *end;
    }
    let out = dir.path.join("out.dic");
    // in one run of three the output path already holds a (much larger) file from an earlier build
    if rng.chance(1, 3) {
        let junk: Vec<u8> = (0..(1usize << 20) + rng.below(4096)).map(|i| (i % 251) as u8).collect();
        std::fs::write(&out, &junk).map_err(|e| format!("cannot prepare the output path: {}", e))?;
    }
    let mut cmd = std::process::Command::new(&cli);
    cmd.arg("build").arg("-m").arg(dir.path.join("matrix.def")).arg("-o").arg(&out).arg("-d").arg(env::DESCRIPTION);
    for f in &files {
        cmd.arg(f);
    }
    let o = cmd.output().map_err(|e| format!("cannot run {}: {}", cli, e))?;
    if !o.status.success() {
        return Err(format!("exit status {:?}: {}", o.status.code(), String::from_utf8_lossy(&o.stderr)));
    }
    let bytes = std::fs::read(&out).map_err(|e| format!("no output file: {}", e))?;
    Ok(Some((files.len(), bytes)))
}
