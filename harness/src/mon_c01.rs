//! C01 — morphemes partition the original text byte-for-byte.

use serde_json::json;
use sudachi::analysis::Mode;
use sudachi::prelude::MorphemeList;

use crate::dictgen::DictOpts;
use crate::env::Place;
use crate::report::{clip, guard, Report};
use crate::rng::{fnv, Rng};
use crate::scen::{self, observe, Obs, Tok, MODES};
use crate::textgen;
use crate::Ctx;

/// The property-literal partition check. Returns the first failure.
pub fn check_partition(text: &str, obs: &[Obs], lo: usize, hi: usize) -> Option<String> {
    let mut pos = lo;
    for (i, o) in obs.iter().enumerate() {
        if o.begin != pos {
            return Some(format!("morpheme {} begins at {} but the previous one ended at {}", i, o.begin, pos));
        }
        if o.end < o.begin {
            return Some(format!("morpheme {} has end {} < begin {}", i, o.end, o.begin));
        }
        if o.end > text.len() || !text.is_char_boundary(o.begin) || !text.is_char_boundary(o.end) {
            return Some(format!("morpheme {} range {}..{} is not on character boundaries of the input", i, o.begin, o.end));
        }
        if &text[o.begin..o.end] != o.surface {
            return Some(format!("morpheme {} surface {:?} differs from input[{}..{}]={:?}", i, o.surface, o.begin, o.end, &text[o.begin..o.end]));
        }
        pos = o.end;
    }
    if pos != hi {
        return Some(format!("last morpheme ends at {} instead of {}", pos, hi));
    }
    None
}

pub fn run(ctx: &Ctx, rep: &mut Report) {
    let n_worlds = ctx.n(480, 16000);
    let texts_per_world = if ctx.quick() { 40 } else { 120 };
    for wi in ctx.indices(n_worlds) {
        if ctx.out_of_time() {
            rep.notes.push(format!("stopped at world {} (time budget)", wi));
            break;
        }
        let mut rng = Rng::derive(ctx.seed, 0xC01, wi);
        rep.progress_idx(wi, "C01 world");
        let dopts = DictOpts { loose_compounds: true, single_unit_splits: wi % 2 == 0, ..DictOpts::default() };
        let place = if wi % 4 == 3 { Place::Offset(1) } else { Place::Owned };
        // every third world: unusual settings of the input-text plugins (empty / longer replacement, other brackets)
        let odd_cfg = wi % 3 == 2;
        let world = match guard(|| scen::build_world_tweak(&mut rng, &dopts, true, place, |r, p| if odd_cfg { p.randomize_input_cfg(r) })) {
            Ok(Ok(w)) => w,
            Ok(Err(e)) => {
                rep.count("worlds_rejected", 1);
                rep.notes.push(format!("world {}: {}", wi, clip(&e, 200)));
                continue;
            }
            Err(p) => {
                rep.skipped_panic(&p, json!({"world": wi, "stage": "build"}));
                continue;
            }
        };
        rep.count("worlds", 1);
        let keys = world.keys();
        let mut toks: Vec<Tok> = MODES.iter().map(|m| Tok::new(&world.dict, *m)).collect();
        let mut sub = MorphemeList::empty(&world.dict);
        let mut texts: Vec<String> = (0..texts_per_world).map(|_| textgen::text_from_keys(&mut rng, &keys, 8)).collect();
        // inputs around and beyond the documented size limits (49,149 bytes of input, 65,535 bytes after
        // normalisation): whatever is accepted must partition like any other input
        if wi % 2 == 1 {
            for target in [49_000 + rng.below(149), 49_150 + rng.below(600), 65_500 + rng.below(4_000)] {
                texts.push(textgen::long_text(&mut rng, &keys, target));
            }
        }
        if let Some((marks, _)) = &world.plugins.prolonged_cfg {
            // runs made of prolonged sound marks only: with an empty replacement the normalised text is empty
            for _ in 0..3 {
                let n = 1 + rng.below(5);
                texts.push((0..n).map(|_| *rng.pick(marks)).collect());
            }
        }
        for (ti, text) in texts.iter().enumerate() {
            let text = text.clone();
            if text.len() > 40_000 {
                rep.count("long_inputs_offered", 1);
            }
            for (mi, mode) in MODES.iter().enumerate() {
                rep.eval();
                let t = &mut toks[mi];
                let scenario = || json!({"world_index": wi, "text_index": ti, "text": text, "mode": scen::mode_name(*mode), "world": world.describe(true)});
                let r = guard(|| t.run(&text));
                match r {
                    Err(p) => {
                        rep.skipped_panic(&p, json!({"world_index": wi, "text": text}));
                        // the tokenizer may be in an arbitrary state after a panic
                        toks[mi] = Tok::new(&world.dict, *mode);
                        continue;
                    }
                    Ok(Err(_)) => {
                        rep.count("rejected_inputs", 1);
                        continue;
                    }
                    Ok(Ok(())) => {}
                }
                let t = &toks[mi];
                let obs = match guard(|| observe(&t.list)) {
                    Ok(o) => o,
                    Err(p) => {
                        // tokenization succeeded, so the morphemes exist; an accessor that cannot
                        // report their range / surface fails the surface clause
                        rep.violation("accessor_panic", &p.site, &p.msg, "", scenario());
                        continue;
                    }
                };
                rep.count("morphemes_checked", obs.len() as u64);
                if text.len() > 40_000 {
                    rep.count("long_inputs_accepted", 1);
                }
                if obs.is_empty() && t.normalized.is_empty() {
                    // only an input whose normalised form is empty yields no morphemes
                    rep.count("empty_normalized_inputs", 1);
                    if !text.is_empty() {
                        rep.count("nonempty_inputs_normalised_to_empty", 1);
                    }
                    continue;
                }
                if let Some(msg) = check_partition(&text, &obs, 0, text.len()) {
                    rep.violation("partition", "check_partition", &msg, "", scenario());
                    continue;
                }
                let concat: String = obs.iter().map(|o| o.surface.as_str()).collect();
                if concat != text {
                    rep.violation("partition", "concat_surfaces", "concatenated surfaces differ from the input", "", scenario());
                    continue;
                }
                if &*t.list.surface() != text.as_str() {
                    rep.violation("partition", "list_surface", "MorphemeList::surface() differs from the input", "", scenario());
                    continue;
                }
                if obs.is_empty() && !t.normalized.is_empty() {
                    rep.violation("partition", "empty_list", &format!("no morphemes although the normalised text is {:?}", clip(&t.normalized, 40)), "", scenario());
                    continue;
                }
                // on-demand splits of every morpheme partition the parent's range
                let mut any_split = false;
                if *mode == Mode::C {
                    for (idx, o) in obs.iter().enumerate() {
                        for sm in [Mode::A, Mode::B] {
                            sub.clear();
                            let res = guard(|| t.list.split_into(sm, idx, &mut sub).map(|b| (b, observe(&sub))));
                            match res {
                                Ok(Ok((true, sobs))) => {
                                    any_split = true;
                                    rep.count("on_demand_splits_checked", 1);
                                    if let Some(msg) = check_partition(&text, &sobs, o.begin, o.end) {
                                        rep.violation("partition", "split_into", &format!("split_into({}) of morpheme {}: {}", scen::mode_name(sm), idx, msg), "", scenario());
                                    }
                                }
                                Ok(Ok((false, sobs))) => {
                                    // "nothing was split": the output list (cleared before the call) stays empty
                                    if !sobs.is_empty() {
                                        rep.violation("partition", "split_into", &format!("split_into({}) of morpheme {} reports that nothing was split but puts {} morphemes into the output list", scen::mode_name(sm), idx, sobs.len()), "", scenario());
                                    }
                                }
                                Ok(Err(_)) => rep.count("split_errors", 1),
                                // the generated dictionaries never declare units longer than the key (that is known finding
                                // D9), so a panic while splitting or reading the split result breaks the surface clause
                                Err(p) => rep.violation("split_accessor_panic", &p.site, &format!("split_into({}) of morpheme {}: {}", scen::mode_name(sm), idx, p.msg), "", scenario()),
                            }
                            // the older entry point (Morpheme::split: the units, or the morpheme itself when there are none)
                            // always returns a partition of the parent's range
                            #[allow(deprecated)]
                            match guard(|| t.list.get(idx).split(sm).map(|l| observe(&l))) {
                                Ok(Ok(sobs)) => {
                                    rep.count("deprecated_splits_checked", 1);
                                    if sobs.len() == 1 && sobs[0].word_id != o.word_id {
                                        rep.count("single_unit_splits_seen", 1);
                                    }
                                    if let Some(msg) = check_partition(&text, &sobs, o.begin, o.end) {
                                        rep.violation("partition", "Morpheme::split", &format!("Morpheme::split({}) of morpheme {} ({:?}) gives {:?}: {}", scen::mode_name(sm), idx, o.surface, sobs.iter().map(|x| (x.begin, x.end)).collect::<Vec<_>>(), msg), "", scenario());
                                    }
                                }
                                Ok(Err(_)) => rep.count("split_errors", 1),
                                Err(p) => rep.violation("split_accessor_panic", &p.site, &format!("Morpheme::split({}) of morpheme {}: {}", scen::mode_name(sm), idx, p.msg), "", scenario()),
                            }
                        }
                    }
                }
                // non-triviality classes
                let rewritten = t.normalized != text;
                let empty_range = obs.iter().any(|o| o.begin == o.end);
                if rewritten {
                    rep.count("class_rewritten", 1);
                }
                if empty_range {
                    rep.count("class_empty_range_morpheme", 1);
                }
                if obs.len() > 1 {
                    rep.count("class_multi_morpheme", 1);
                }
                if any_split {
                    rep.count("class_split_token", 1);
                }
                if rewritten || empty_range || obs.len() > 1 || any_split {
                    let fp = fnv(format!("{}|{}|{}", wi, mi, text).as_bytes());
                    rep.nontrivial(fp);
                }
                if rep.want_sample() && rewritten && obs.len() > 1 {
                    rep.sample(json!({"text": text, "normalized": t.normalized, "mode": scen::mode_name(*mode),
                        "morphemes": obs.iter().map(|o| json!([o.begin, o.end, o.surface])).collect::<Vec<_>>(),
                        "config": world.cfg_json}));
                }
            }
        }
    }
}
