//! C13 — unknown-word candidates follow the character-class definition.
//! Reference model built from the generated char.def / unk.def / plugin JSON only.

use serde_json::{json, Value};
use std::collections::BTreeSet;
use sudachi::analysis::Mode;
use sudachi::input_text::InputTextIndex;

use crate::dictgen::{self, DictOpts};
use crate::env::{Place, CLS};
use crate::model::Pos;
use crate::mon_c02::observe_lattice;
use crate::mon_c17::{expected_bits, Line, CLASSES};
use crate::report::{clip, guard, Report};
use crate::rng::{fnv, Rng};
use crate::scen::{build_world_from, observe, PluginOpts, Tok};
use crate::Ctx;

const NOOOVBOW: u32 = 1 << 30;
const NOOOVBOW2: u32 = 1 << 31;
const NON_STARTING: u32 = (1 << 5) | (1 << 9) | (1 << 10); // ALPHA | GREEK | CYRILLIC

const ALPHABET: &[char] = &['a', 'b', 'Z', '1', '2', 'あ', 'い', 'ア', 'イ', 'ー', '漢', '字', '々', '👍', '🏻', '\u{301}', '。', ' ', 'α', 'д', '〇'];

#[derive(Clone, Debug)]
struct CatInfo {
    class: usize,
    invoke: bool,
    group: bool,
    length: u32,
}

#[derive(Clone, Debug)]
struct UnkLine {
    class: usize,
    left: i16,
    right: i16,
    cost: i16,
    pos: Pos,
}

#[derive(Clone, Debug)]
struct Defs {
    lines: Vec<Line>,
    cats: Vec<CatInfo>,
    unk: Vec<UnkLine>,
    char_def: String,
    unk_def: String,
}

fn gen_defs(rng: &mut Rng, nid: i64, pos_pool: &[Pos]) -> Defs {
    // classes usable in the category table (single-bit, not the NOOOVBOW flags / ALL)
    let table_classes: Vec<usize> = (0..15).collect();
    let mut lines = vec![];
    for c in ALPHABET {
        let cp = *c as u32;
        let mut classes = vec![];
        let all = matches!(*c, '🏻' | '\u{301}') && rng.chance(2, 3);
        if all {
            classes.push(CLASSES.len() - 1); // ALL
        } else {
            for _ in 0..1 + rng.below(3) {
                let k = *rng.pick(&table_classes[..12]);
                if !classes.contains(&k) {
                    classes.push(k);
                }
            }
        }
        if rng.chance(1, 8) {
            classes.push(15); // NOOOVBOW
        }
        if rng.chance(1, 14) {
            classes.push(16); // NOOOVBOW2
        }
        if rng.chance(1, 10) {
            continue; // stays DEFAULT
        }
        lines.push(Line { lo: cp, hi: cp, classes });
    }
    // a few ranges on top (overlaps are unions)
    for _ in 0..rng.below(3) {
        let c = *rng.pick(ALPHABET) as u32;
        lines.push(Line { lo: c.saturating_sub(rng.below(3) as u32), hi: c + rng.below(3) as u32, classes: vec![*rng.pick(&table_classes[..12])] });
    }
    lines.retain(|l| char::from_u32(l.lo).is_some() && char::from_u32(l.hi + 1).is_some());
    let mut cats = vec![];
    for k in &table_classes {
        if *k == 0 || rng.chance(3, 4) {
            cats.push(CatInfo { class: *k, invoke: rng.chance(1, 2), group: rng.chance(1, 2), length: rng.below(4) as u32 });
        }
    }
    let mut unk = vec![];
    for ci in &cats {
        let n = if ci.class == 0 { 1 + rng.below(2) } else { rng.below(4) };
        for _ in 0..n {
            unk.push(UnkLine { class: ci.class, left: rng.range(0, nid - 1) as i16, right: rng.range(0, nid - 1) as i16, cost: rng.range(500, 20000) as i16, pos: rng.pick(pos_pool).clone() });
        }
    }
    let mut char_def = String::from("# generated\n");
    for ci in &cats {
        char_def.push_str(&format!("{} {} {} {}\n", CLASSES[ci.class].0, ci.invoke as u8, ci.group as u8, ci.length));
    }
    for l in &lines {
        let names: Vec<&str> = l.classes.iter().map(|c| CLASSES[*c].0).collect();
        if l.lo == l.hi {
            char_def.push_str(&format!("0x{:04X} {}\n", l.lo, names.join(" ")));
        } else {
            char_def.push_str(&format!("0x{:04X}..0x{:04X} {}\n", l.lo, l.hi, names.join(" ")));
        }
    }
    let mut unk_def = String::new();
    for u in &unk {
        unk_def.push_str(&format!("{},{},{},{},{}\n", CLASSES[u.class].0, u.left, u.right, u.cost, u.pos.join(",")));
    }
    // the last line of a definition file need not end with a line break; line breaks may be CR LF
    if rng.chance(1, 4) {
        while unk_def.ends_with('\n') {
            unk_def.pop();
        }
    }
    if rng.chance(1, 4) {
        while char_def.ends_with('\n') {
            char_def.pop();
        }
    }
    if rng.chance(1, 8) {
        unk_def = unk_def.replace('\n', "\r\n");
    }
    if rng.chance(1, 8) {
        char_def = char_def.replace('\n', "\r\n");
    }
    Defs { lines, cats, unk, char_def, unk_def }
}

#[derive(Clone, Debug)]
enum Provider {
    MeCab,
    Regex { re: String, relaxed: bool, max_len: usize, left: i16, right: i16, cost: i16, pos: Pos },
    Simple { left: i16, right: i16, cost: i16, pos: Pos },
}

type Cand = (usize, usize, i32, i32, i32, String); // begin, end, left, right, cost, pos

struct TextModel {
    chars: Vec<char>,
    cats: Vec<u32>,
    can_bow: Vec<bool>,
    /// run length to the right under the two readings of "class in common"
    cont: [Vec<usize>; 2],
}

fn text_model(defs: &Defs, text: &str) -> TextModel {
    let chars: Vec<char> = text.chars().collect();
    let cats: Vec<u32> = chars.iter().map(|c| expected_bits(&defs.lines, *c as u32)).collect();
    let n = chars.len();
    // word-start permission
    let mut can_bow = vec![true; n];
    let mut next_bow = true;
    let mut prev = 0u32;
    for i in 0..n {
        let c = cats[i];
        can_bow[i] = if !next_bow {
            next_bow = true;
            false
        } else if c & NOOOVBOW2 != 0 {
            next_bow = false;
            false
        } else if c & NOOOVBOW != 0 {
            false
        } else if c & NON_STARTING != 0 {
            c & prev == 0
        } else {
            true
        };
        prev = c;
    }
    // class runs, segmented left to right from the start of the text
    let mut cont = [vec![1usize; n], vec![1usize; n]];
    for (ri, mask) in [u32::MAX, !(NOOOVBOW | NOOOVBOW2)].iter().enumerate() {
        let mut s = 0;
        while s < n {
            let mut run = cats[s] & mask;
            let mut e = s + 1;
            while e < n {
                let common = run & cats[e] & mask;
                if common == 0 {
                    break;
                }
                run = common;
                e += 1;
            }
            for i in s..e {
                cont[ri][i] = e - i;
            }
            s = e;
        }
    }
    TextModel { chars, cats, can_bow, cont }
}

fn created_has(created: &BTreeSet<usize>, len: usize) -> bool {
    // lengths >= 64 share one bit ("maybe"): the caller resolves it with the actual nodes
    created.contains(&len)
}

fn model_provider(defs: &Defs, tm: &TextModel, reading: usize, p: &Provider, off: usize, created: &BTreeSet<usize>, existing_ends: &BTreeSet<usize>) -> Vec<Cand> {
    let n = tm.chars.len();
    let mut out: Vec<Cand> = vec![];
    match p {
        Provider::MeCab => {
            let run = tm.cont[reading][off];
            for k in 0..15 {
                if tm.cats[off] & (1 << k) == 0 {
                    continue;
                }
                let ci = match defs.cats.iter().find(|c| c.class == k) {
                    Some(c) => c,
                    None => continue,
                };
                if !ci.invoke && !created.is_empty() {
                    continue;
                }
                let lines: Vec<&UnkLine> = defs.unk.iter().filter(|u| u.class == k).collect();
                if lines.is_empty() {
                    continue;
                }
                let mut ll = run;
                if ci.group {
                    for u in &lines {
                        out.push((off, off + run, u.left as i32, u.right as i32, u.cost as i32, u.pos.join(",")));
                    }
                    ll -= 1;
                }
                for i in 1..=ci.length as usize {
                    let sub = (off + i).min(n) - off;
                    if sub > ll {
                        break;
                    }
                    for u in &lines {
                        out.push((off, off + sub, u.left as i32, u.right as i32, u.cost as i32, u.pos.join(",")));
                    }
                }
            }
        }
        Provider::Regex { re, relaxed, max_len, left, right, cost, pos } => {
            if !*relaxed && off > 0 && tm.cont[reading][off] + 1 == tm.cont[reading][off - 1] {
                return out;
            }
            let end = n.min(off.saturating_add(*max_len));
            let slice: String = tm.chars[off..end].iter().collect();
            let pattern = if re.starts_with('^') { re.clone() } else { format!("^{}", re) };
            if let Ok(rx) = regex::Regex::new(&pattern) {
                if let Some(m) = rx.find(&slice) {
                    if m.start() == 0 && m.end() > 0 {
                        let len = slice[..m.end()].chars().count();
                        let exists = if len >= 64 { existing_ends.contains(&(off + len)) } else { created_has(created, len) };
                        if !exists {
                            out.push((off, off + len, *left as i32, *right as i32, *cost as i32, pos.join(",")));
                        }
                    }
                }
            }
        }
        Provider::Simple { left, right, cost, pos } => {
            if created.is_empty() {
                let mut len = n - off;
                for i in off + 1..n {
                    if tm.can_bow[i] {
                        len = i - off;
                        break;
                    }
                }
                out.push((off, off + len, *left as i32, *right as i32, *cost as i32, pos.join(",")));
            }
        }
    }
    out
}

/// expected OOV candidates at one reachable position under one reading of the run length
fn model_position(defs: &Defs, tm: &TextModel, reading: usize, providers: &[Provider], off: usize, dict_lens: &BTreeSet<usize>) -> BTreeSet<Cand> {
    let mut created: BTreeSet<usize> = dict_lens.iter().map(|l| (*l).min(64)).collect();
    let mut ends: BTreeSet<usize> = dict_lens.iter().map(|l| off + l).collect();
    let mut all = BTreeSet::new();
    let mut add = |c: Vec<Cand>, created: &mut BTreeSet<usize>, ends: &mut BTreeSet<usize>| {
        for x in c {
            created.insert((x.1 - x.0).min(64));
            ends.insert(x.1);
            all.insert(x);
        }
    };
    if tm.cats[off] & (NOOOVBOW | NOOOVBOW2) == 0 {
        for p in providers {
            let c = model_provider(defs, tm, reading, p, off, &created, &ends);
            add(c, &mut created, &mut ends);
        }
    }
    if created.is_empty() {
        let c = model_provider(defs, tm, reading, providers.last().unwrap(), off, &created, &ends);
        add(c, &mut created, &mut ends);
    }
    all
}

pub fn run(ctx: &Ctx, rep: &mut Report) {
    let n_worlds = ctx.n(400, 16000);
    let pool = dictgen::pos_pool();
    for wi in ctx.indices(n_worlds) {
        if ctx.out_of_time() {
            rep.notes.push(format!("stopped at world {} (time budget)", wi));
            break;
        }
        let mut rng = Rng::derive(ctx.seed, 0xC13, wi);
        rep.progress_idx(wi, "C13 definitions");
        let dopts = DictOpts { splits: false, max_entries: 10, min_entries: 4, ..DictOpts::default() };
        let matrix = dictgen::gen_matrix(&mut rng, &dopts);
        let nid = matrix.nid() as i64;
        let mut sys = dictgen::gen_system(&mut rng, &dopts, &matrix);
        // a few words over the C13 alphabet so that dictionary candidates exist at some positions
        for _ in 0..rng.below(5) {
            let k: String = (0..1 + rng.below(3)).map(|_| *rng.pick(ALPHABET)).collect();
            sys.entries.push(crate::model::Entry::simple(&k, rng.range(0, nid - 1) as i16, rng.range(0, nid - 1) as i16, rng.range(0, 9000) as i16, rng.pick(&pool)));
        }
        // dictionary words of 64 and more characters made of one repeated character: a regex candidate with the same span
        // (the texts have such runs, also away from the start of the text) must not be added a second time
        if rng.chance(1, 2) {
            for c in ['a', '1', 'あ'] {
                for len in [64usize, 65, 70] {
                    if rng.chance(1, 2) {
                        let k: String = std::iter::repeat(c).take(len).collect();
                        sys.entries.push(crate::model::Entry::simple(&k, rng.range(0, nid - 1) as i16, rng.range(0, nid - 1) as i16, rng.range(0, 9000) as i16, rng.pick(&pool)));
                    }
                }
            }
        }
        let defs = gen_defs(&mut rng, nid, &pool[0..3]);
        // every other world: the provider is configured with a class table of its own (`charDef`); the tokenizer's
        // char.def then carries the same ranges but other invoke / group / length columns, which nobody must read
        let own_class_table = rng.chance(1, 2);
        let tokenizer_char_def = if own_class_table {
            let nl = if defs.char_def.contains("\r\n") { "\r\n" } else { "\n" };
            let mut t = String::new();
            for line in defs.char_def.split(nl) {
                let cols: Vec<&str> = line.split(' ').collect();
                if cols.len() == 4 && !line.starts_with("0x") && !line.starts_with('#') {
                    let flip = |c: &str| if c == "1" { "0" } else { "1" };
                    let len: u32 = cols[3].parse().unwrap_or(0);
                    t.push_str(&format!("{} {} {} {}", cols[0], flip(cols[1]), flip(cols[2]), (len + 1 + rng.below(2) as u32) % 4));
                } else {
                    t.push_str(line);
                }
                t.push_str(nl);
            }
            t
        } else {
            defs.char_def.clone()
        };
        // provider stack
        let mut providers: Vec<Provider> = vec![];
        let mut oov_cfg: Vec<Value> = vec![];
        let mut order = vec![0, 1];
        rng.shuffle(&mut order);
        for o in order {
            if o == 0 && rng.chance(4, 5) {
                providers.push(Provider::MeCab);
                oov_cfg.push(json!({"class": format!("{}MeCabOovPlugin", CLS), "charDef": if own_class_table { "oov-classes.def" } else { "char.def" }, "unkDef": "unk.def"}));
            }
            if o == 1 && rng.chance(1, 2) {
                let re = rng.s(&["[a-zZ]+[0-9]*", "[0-9ab]+", "[アイー]{2,}", "(漢|字|々)+", ".{70}", "a?", "a{64}", "[あい]{64}", "1{65}", ".{64}",
                    // alternations: the provider anchors the first branch only; a match of a later branch that starts further right is no candidate
                    "[a-z]+[0-9]+|[0-9]+[a-z]+", "ab|b", "漢字|[0-9]+"]).to_string();
                let relaxed = rng.chance(1, 2);
                let max_len = *rng.pick(&[2usize, 3, 32, 100, 100, usize::MAX]);
                let (l, r, c) = (rng.range(0, nid - 1) as i16, rng.range(0, nid - 1) as i16, rng.range(500, 9000) as i16);
                let pos = pool[rng.below(3)].clone();
                oov_cfg.push(json!({"class": format!("{}RegexOovProvider", CLS), "oovPOS": pos.to_vec(), "leftId": l, "rightId": r, "cost": c,
                    "regex": re, "maxLength": max_len, "boundaries": if relaxed {"relaxed"} else {"strict"}}));
                providers.push(Provider::Regex { re, relaxed, max_len, left: l, right: r, cost: c, pos });
            }
        }
        let (sl, sr, sc) = (rng.range(0, nid - 1) as i16, rng.range(0, nid - 1) as i16, rng.range(5000, 30000) as i16);
        let spos = pool[rng.below(3)].clone();
        // one stack in five ends with the MeCab or the regex provider instead of the simple one: whatever stands last
        // is an ordinary provider at every position AND the one asked again when nothing exists
        let no_simple = !providers.is_empty() && rng.chance(1, 5);
        if !no_simple {
            providers.push(Provider::Simple { left: sl, right: sr, cost: sc, pos: spos.clone() });
        }
        let mut p = PluginOpts::none();
        p.char_def = Some(tokenizer_char_def.clone());
        p.simple = (sl as i64, sr as i64, sc as i64);
        // build_world_from writes its own unk.def and uses pool[2] for the simple provider: override through a custom config below
        let world = match guard(|| {
            let mut w = build_world_from(&mut rng, &dopts, matrix, sys, p, Place::Owned)?;
            // reload with the C13 provider stack and definition files
            w.res.write("unk.def", &defs.unk_def);
            if own_class_table {
                w.res.write("oov-classes.def", &defs.char_def);
            }
            w.unk_def = defs.unk_def.clone();
            let mut cfg = w.cfg_json.clone();
            let mut oov = oov_cfg.clone();
            if !no_simple {
                oov.push(crate::env::simple_oov(&spos, sl as i64, sr as i64, sc as i64));
            }
            cfg["oovProviderPlugin"] = json!(oov);
            let c = crate::env::config(&cfg, &w.res);
            w.dict = crate::env::load(&c, &w.sys_bytes, &w.user_bytes, Place::Owned).map_err(|e| format!("load failed: {:?}", e))?;
            w.cfg_json = cfg;
            Ok::<_, String>(w)
        }) {
            Ok(Ok(w)) => w,
            Ok(Err(e)) => {
                rep.count("worlds_rejected", 1);
                rep.notes.push(format!("world {}: {}", wi, clip(&e, 300)));
                continue;
            }
            Err(p) => {
                rep.skipped_panic(&p, json!({"world": wi, "stage": "build"}));
                continue;
            }
        };
        rep.count("definition_sets", 1);
        if no_simple {
            rep.count("definition_sets_whose_last_provider_is_not_the_simple_one", 1);
        }
        if own_class_table && providers.iter().any(|p| matches!(p, Provider::MeCab)) {
            rep.count("definition_sets_with_a_class_table_of_the_provider", 1);
        }
        let pos_list = &world.dict.grammar().pos_list;
        let mut t = Tok::new(&world.dict, Mode::C);
        for ti in 0..60 {
            // texts over the small alphabet, with long runs now and then
            let mut text = String::new();
            for _ in 0..1 + rng.below(12) {
                let c = *rng.pick(ALPHABET);
                let long_regex = providers.iter().any(|p| matches!(p, Provider::Regex { max_len, .. } if *max_len >= 64));
                let rep_n = if rng.chance(1, if long_regex { 6 } else { 40 }) { 65 + rng.below(14) } else { 1 + rng.below(3) };
                for _ in 0..rep_n {
                    text.push(c);
                }
            }
            rep.eval();
            t.tok.reset().push_str(&text);
            match guard(|| t.tok.do_tokenize()) {
                Ok(Ok(())) => {}
                Ok(Err(_)) if no_simple => {
                    // without a provider that always produces something a position may be left without any word
                    rep.count("analyses_refused_in_stacks_without_the_simple_provider", 1);
                    continue;
                }
                Ok(Err(e)) => {
                    rep.violation("no_candidate", "do_tokenize", &format!("analysis failed although a fallback provider is configured: {:?}", e), "", json!({"world_index": wi, "text": text, "world": world.describe(true)}));
                    continue;
                }
                Err(p) => {
                    rep.skipped_panic(&p, json!({"world_index": wi, "text": text}));
                    t = Tok::new(&world.dict, Mode::C);
                    continue;
                }
            }
            let inp = t.tok.verif_input();
            let normalized = inp.current().to_string();
            if normalized.is_empty() {
                let _ = t.list.collect_results(&mut t.tok);
                continue;
            }
            let tm = text_model(&defs, &normalized);
            let n = tm.chars.len();
            let scen = |extra: &str| json!({"world_index": wi, "text_index": ti, "text": text, "detail": extra, "world": world.describe(true)});
            // (1) classes, word-start permission and class runs of the built input
            let mut bad = false;
            let c2b: Vec<usize> = normalized.char_indices().map(|(b, _)| b).collect();
            for i in 0..n {
                let got = inp.cat_at_char(i).bits();
                if got != tm.cats[i] {
                    rep.violation("char_class", "InputBuffer::cat_at_char", &format!("char {} {:?}: classes {:#x}, definition gives {:#x}", i, tm.chars[i], got, tm.cats[i]), "", scen(""));
                    bad = true;
                    break;
                }
                if inp.can_bow(c2b[i]) != tm.can_bow[i] {
                    rep.violation("word_start", "InputBuffer::can_bow", &format!("char {} {:?}: can start a word = {}, the definition gives {}", i, tm.chars[i], inp.can_bow(c2b[i]), tm.can_bow[i]), "", scen(""));
                    bad = true;
                    break;
                }
            }
            if bad {
                let _ = t.list.collect_results(&mut t.tok);
                continue;
            }
            let got_cont: Vec<usize> = (0..n).map(|i| inp.cat_continuous_len(i)).collect();
            rep.count("run_lengths_checked", n as u64);
            let reading = if got_cont == tm.cont[0] {
                0
            } else if got_cont == tm.cont[1] {
                1
            } else {
                rep.violation("class_run", "InputBuffer::cat_continuous_len", &format!("run lengths {:?}; left-to-right segmentation gives {:?} (or {:?} when NOOOVBOW flags do not count as a class)", got_cont, tm.cont[0], tm.cont[1]), "", scen(&format!("classes {:x?}", tm.cats)));
                let _ = t.list.collect_results(&mut t.tok);
                continue;
            };
            if tm.cont[0] != vec![1; n] {
                rep.count("texts_with_runs_longer_than_one", 1);
            }
            // (2) OOV candidates in the lattice at every reachable position
            let lat = observe_lattice(&t);
            let _ = t.list.collect_results(&mut t.tok);
            let mut failed = false;
            let mut oov_by_range: std::collections::HashMap<(usize, usize), BTreeSet<String>> = Default::default();
            for off in 0..n {
                let reachable = off == 0 || !lat.nodes[off].is_empty();
                if !reachable {
                    continue;
                }
                let mut dict_lens = BTreeSet::new();
                let mut got: BTreeSet<Cand> = BTreeSet::new();
                for b in off + 1..=n {
                    for node in &lat.nodes[b] {
                        if node.begin != off {
                            continue;
                        }
                        if node.word_id >> 28 == 15 {
                            let pid = (node.word_id & 0x0fff_ffff) as usize;
                            let pos = pos_list.get(pid).map(|p| p.join(",")).unwrap_or_else(|| format!("<pos {}>", pid));
                            got.insert((off, b, node.left_id as i32, node.right_id as i32, node.cost as i32, pos));
                        } else {
                            dict_lens.insert(b - off);
                            rep.count("dictionary_candidates_checked_against_word_starts", 1);
                            if b < n && !tm.can_bow[b] {
                                rep.violation("oov_candidates", "lattice", &format!("the dictionary word at chars {}..{} ends before {:?}, a character that cannot start a word: the base character is cut from what belongs to it", off, b, tm.chars[b]), "", scen(&format!("classes {:x?}", tm.cats)));
                                failed = true;
                            }
                        }
                    }
                }
                if failed {
                    break;
                }
                let exp = model_position(&defs, &tm, reading, &providers, off, &dict_lens);
                rep.count("positions_checked", 1);
                rep.count("oov_candidates_expected", exp.len() as u64);
                if exp.is_empty() && dict_lens.is_empty() {
                    rep.violation("no_candidate", "lattice", &format!("reachable position {} has no candidate at all", off), "", scen(""));
                    failed = true;
                    break;
                }
                if got != exp {
                    let missing: Vec<_> = exp.difference(&got).take(3).collect();
                    let extra: Vec<_> = got.difference(&exp).take(3).collect();
                    rep.violation("oov_candidates", "lattice", &format!("position {} ({:?}, dictionary lengths {:?}): missing {:?}, unexpected {:?}", off, tm.chars[off], dict_lens, missing, extra), "", scen(&format!("classes {:x?} runs {:?}", tm.cats, got_cont)));
                    failed = true;
                    break;
                }
                for c in &exp {
                    oov_by_range.entry((c.0, c.1)).or_default().insert(c.5.clone());
                }
            }
            if failed {
                continue;
            }
            // (3) OOV morphemes
            if let Ok(obs) = guard(|| observe(&t.list)) {
                for (k, o) in obs.iter().enumerate() {
                    if !o.is_oov {
                        continue;
                    }
                    let (b, e) = t.nranges.get(k).cloned().unwrap_or((0, 0));
                    let _ = (b, e);
                }
                // nranges were not recorded on this path (do_tokenize was driven by hand): recompute from surfaces
                let mut cpos = 0usize;
                for o in obs.iter() {
                    let len = o.surface.chars().count();
                    if o.is_oov {
                        rep.count("oov_morphemes_checked", 1);
                        let slice: String = tm.chars[cpos..(cpos + len).min(n)].iter().collect();
                        let pos_ok = oov_by_range.get(&(cpos, cpos + len)).map(|s| s.contains(&o.pos.join(","))).unwrap_or(false);
                        if o.dic_id != -1 || o.norm != slice || o.dict_form != slice || !pos_ok {
                            rep.violation("oov_morpheme", "Morpheme accessors", &format!("OOV morpheme {:?}: dictionary id {}, normalised {:?}, dictionary form {:?}, POS {:?} (candidates at its range: {:?})", o.surface, o.dic_id, o.norm, o.dict_form, o.pos.join(","), oov_by_range.get(&(cpos, cpos + len))), "", scen(""));
                            break;
                        }
                    } else if o.dic_id < 0 {
                        rep.violation("oov_morpheme", "Morpheme accessors", &format!("dictionary morpheme {:?} reports dictionary id {}", o.surface, o.dic_id), "", scen(""));
                        break;
                    }
                    cpos += len;
                }
            }
            rep.nontrivial(fnv(format!("{}|{}", wi, text).as_bytes()));
            if rep.want_sample() && tm.cont[0].iter().any(|c| *c > 2) {
                rep.sample(json!({"text": text, "classes": tm.cats.iter().map(|c| format!("{:x}", c)).collect::<Vec<_>>(), "run_lengths": got_cont,
                    "providers": world.cfg_json["oovProviderPlugin"], "char_def": clip(&defs.char_def, 400)}));
            }
        }
    }
}
