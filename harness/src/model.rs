//! Source model of dictionaries: what the generated CSV / matrix text *declares*.
//! All oracles compare against this, never against what the reader returns.

use serde_json::{json, Value};

pub type Pos = [String; 6];

pub fn pos(p: [&str; 6]) -> Pos {
    [
        p[0].to_string(),
        p[1].to_string(),
        p[2].to_string(),
        p[3].to_string(),
        p[4].to_string(),
        p[5].to_string(),
    ]
}

/// Reference to another entry. dic: 0 = system dictionary, 1 = "this user dictionary"
#[derive(Clone, Debug, PartialEq, Eq)]
pub struct Ref {
    pub dic: u8,
    pub row: usize,
    /// how it is written in the CSV: numeric (`12`, `U12`) or inline (`surface,pos*6,reading`)
    pub inline: bool,
}

#[derive(Clone, Debug)]
pub struct Entry {
    pub key: String,
    pub left: i16,
    pub right: i16,
    pub cost: i16,
    pub headword: String,
    pub pos: Pos,
    pub reading: String,
    pub norm: String,
    pub dic_form: Option<Ref>,
    pub mode: &'static str,
    pub split_a: Vec<Ref>,
    pub split_b: Vec<Ref>,
    pub word_structure: Vec<Ref>,
    pub synonyms: Vec<u32>,
    /// if set, the key / headword columns are written with \u escapes
    pub escape: bool,
}

impl Entry {
    pub fn simple(key: &str, left: i16, right: i16, cost: i16, p: &Pos) -> Entry {
        Entry {
            key: key.to_string(),
            left,
            right,
            cost,
            headword: key.to_string(),
            pos: p.clone(),
            reading: key.to_string(),
            norm: key.to_string(),
            dic_form: None,
            mode: "*",
            split_a: vec![],
            split_b: vec![],
            word_structure: vec![],
            synonyms: vec![],
            escape: false,
        }
    }

    pub fn indexed(&self) -> bool {
        self.left >= 0
    }
}

#[derive(Clone, Debug, Default)]
pub struct Lexicon {
    pub entries: Vec<Entry>,
    pub user: bool,
}

fn csv_field(s: &str) -> String {
    if s.contains(',') || s.contains('"') || s.contains('\n') || s.contains('\r') || s.is_empty() {
        let mut r = String::with_capacity(s.len() + 2);
        r.push('"');
        for c in s.chars() {
            if c == '"' {
                r.push('"');
            }
            r.push(c);
        }
        r.push('"');
        r
    } else {
        s.to_string()
    }
}

pub fn join_csv(fields: &[String]) -> String {
    fields.iter().map(|f| if f.is_empty() { String::new() } else { csv_field(f) }).collect::<Vec<_>>().join(",")
}

/// writes every non-ASCII character (and a few ASCII ones) as \u escape
pub fn escape_u(s: &str, braces: bool) -> String {
    let mut r = String::new();
    for c in s.chars() {
        let cp = c as u32;
        if cp < 0x80 && c != ',' && c != '"' {
            r.push(c);
        } else if cp <= 0xFFFF && !braces {
            // both spellings of the hex digits are legal
            if cp % 3 == 0 { r.push_str(&format!("\\u{:04X}", cp)) } else { r.push_str(&format!("\\u{:04x}", cp)) }
        } else if cp % 3 == 1 {
            r.push_str(&format!("\\u{{{:X}}}", cp));
        } else {
            r.push_str(&format!("\\u{{{:x}}}", cp));
        }
    }
    r
}

impl Lexicon {
    fn ref_text(&self, r: &Ref, system: Option<&Lexicon>) -> String {
        if !r.inline {
            return if r.dic == 0 { format!("{}", r.row) } else { format!("U{}", r.row) };
        }
        let tgt = self.target(r, system);
        format!(
            "{},{},{},{},{},{},{},{}",
            tgt.key, tgt.pos[0], tgt.pos[1], tgt.pos[2], tgt.pos[3], tgt.pos[4], tgt.pos[5], tgt.reading
        )
    }

    /// Entry a reference points to. For a system lexicon dic is always 0 (itself).
    pub fn target<'a>(&'a self, r: &Ref, system: Option<&'a Lexicon>) -> &'a Entry {
        if self.user {
            if r.dic == 0 {
                &system.expect("user lexicon needs system").entries[r.row]
            } else {
                &self.entries[r.row]
            }
        } else {
            &self.entries[r.row]
        }
    }

    fn refs_text(&self, refs: &[Ref], system: Option<&Lexicon>) -> String {
        if refs.is_empty() {
            return "*".to_string();
        }
        refs.iter().map(|r| self.ref_text(r, system)).collect::<Vec<_>>().join("/")
    }

    /// raw (unquoted) values of the 19 CSV columns
    pub fn row_fields(&self, e: &Entry, system: Option<&Lexicon>) -> Vec<String> {
        let (key, head) = if e.escape {
            (escape_u(&e.key, e.key.len() % 2 == 0), escape_u(&e.headword, false))
        } else {
            (e.key.clone(), e.headword.clone())
        };
        let dic_form = match &e.dic_form {
            None => "*".to_string(),
            Some(r) => {
                if r.dic == 0 {
                    format!("{}", r.row)
                } else {
                    format!("U{}", r.row)
                }
            }
        };
        let syn = if e.synonyms.is_empty() {
            "*".to_string()
        } else {
            e.synonyms.iter().map(|x| format!("{:06}", x)).collect::<Vec<_>>().join("/")
        };
        vec![
            key,
            e.left.to_string(),
            e.right.to_string(),
            e.cost.to_string(),
            head,
            e.pos[0].clone(),
            e.pos[1].clone(),
            e.pos[2].clone(),
            e.pos[3].clone(),
            e.pos[4].clone(),
            e.pos[5].clone(),
            e.reading.clone(),
            e.norm.clone(),
            dic_form,
            e.mode.to_string(),
            self.refs_text(&e.split_a, system),
            self.refs_text(&e.split_b, system),
            self.refs_text(&e.word_structure, system),
            syn,
        ]
    }

    pub fn row_csv(&self, e: &Entry, system: Option<&Lexicon>) -> String {
        join_csv(&self.row_fields(e, system))
    }

    pub fn to_csv(&self, system: Option<&Lexicon>) -> String {
        let mut s = String::new();
        for e in &self.entries {
            s.push_str(&self.row_csv(e, system));
            s.push('\n');
        }
        s
    }

    /// distinct POS in order of first appearance (the order the compiler assigns ids in)
    pub fn pos_in_order(&self) -> Vec<Pos> {
        let mut res: Vec<Pos> = Vec::new();
        for e in &self.entries {
            if !res.contains(&e.pos) {
                res.push(e.pos.clone());
            }
        }
        res
    }

    pub fn to_json(&self) -> Value {
        json!({ "user": self.user, "rows": self.entries.len() })
    }
}

#[derive(Clone, Debug)]
pub struct Matrix {
    /// size of the first coordinate (= right id of the left-hand word)
    pub nl: usize,
    /// size of the second coordinate (= left id of the right-hand word)
    pub nr: usize,
    /// cells[b * nl + a] is the cost for line "a b cost"
    pub cells: Vec<i16>,
    /// the text lists only the non-zero cells (cells that are not listed cost 0), last line first
    pub sparse: bool,
}

impl Matrix {
    pub fn new(nl: usize, nr: usize) -> Matrix {
        Matrix { nl, nr, cells: vec![0; nl * nr], sparse: false }
    }

    /// connection cost between a word with right id `prev_right` followed by a word with left id `next_left`
    pub fn cost(&self, prev_right: usize, next_left: usize) -> i16 {
        self.cells[next_left * self.nl + prev_right]
    }

    pub fn set(&mut self, a: usize, b: usize, c: i16) {
        self.cells[b * self.nl + a] = c;
    }

    pub fn to_text(&self) -> String {
        let mut s = format!("{} {}\n", self.nl, self.nr);
        if self.sparse {
            for a in (0..self.nl).rev() {
                for b in (0..self.nr).rev() {
                    if self.cost(a, b) != 0 {
                        s.push_str(&format!("{} {} {}\n", a, b, self.cost(a, b)));
                    }
                }
            }
            return s;
        }
        for a in 0..self.nl {
            for b in 0..self.nr {
                s.push_str(&format!("{} {} {}\n", a, b, self.cost(a, b)));
            }
        }
        s
    }

    /// ids usable for words both as left and right id
    pub fn nid(&self) -> usize {
        self.nl.min(self.nr)
    }
}
