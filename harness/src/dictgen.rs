//! Generators for lexicons, matrices and definition files.

use crate::model::*;
use crate::rng::Rng;
use crate::textgen;

pub fn pos_pool() -> Vec<Pos> {
    vec![
        pos(["名詞", "普通名詞", "一般", "*", "*", "*"]),
        pos(["名詞", "数詞", "*", "*", "*", "*"]),
        pos(["補助記号", "一般", "*", "*", "*", "*"]),
        pos(["動詞", "一般", "*", "*", "五段-カ行", "終止形-一般"]),
        pos(["名詞", "固有名詞", "地名", "一般", "*", "*"]),
        pos(["空白", "*", "*", "*", "*", "*"]),
        pos(["助詞", "格助詞", "*", "*", "*", "*"]),
        pos(["感動詞", "一般", "*", "*", "*", "*"]),
        pos(["名詞", "普通名詞", "サ変可能", "*", "*", "*"]),
        pos(["名詞", "固有名詞", "一般", "*", "*", "*"]),
    ]
}

pub fn user_pos_pool() -> Vec<Pos> {
    vec![
        pos(["名詞", "固有名詞", "人名", "一般", "*", "*"]),
        pos(["ユーザ", "品詞", "一", "*", "*", "*"]),
        pos(["ユーザ", "品詞", "二", "*", "*", "*"]),
        pos(["ユーザ", "品詞", "三", "x", "y", "z"]),
        pos(["形容詞", "一般", "*", "*", "形容詞", "終止形-一般"]),
        pos(["u", "*", "*", "*", "*", "*"]),
    ]
}

#[derive(Clone, Debug)]
pub struct DictOpts {
    pub min_entries: usize,
    pub max_entries: usize,
    pub max_dim: usize,
    pub square: bool,
    pub splits: bool,
    pub cost_extremes: bool,
    pub synonyms: bool,
    pub non_indexed: bool,
    pub forms: bool,
    pub escapes: bool,
    pub max_key_chars: usize,
    /// compounds whose key is longer than the concatenation of its units (the last unit then
    /// covers the rest) — legal for C01/C03, outside the precondition of C09
    pub loose_compounds: bool,
    /// number of leading entries that carry the first POS of the pool in order (anchors)
    pub anchor_pos: usize,
    /// no entry carries the symbol POS 補助記号,一般,*,*,*,* (pool[2]); configurations must then name another OOV POS
    pub no_symbol_pos: bool,
    /// some two-unit compounds declare ONE B unit (an entry with the compound's own key): legal, compiled as is;
    /// outside C09's "two or more units / none" cases, so only monitors that do not compare split routes use it
    pub single_unit_splits: bool,
    /// every other user lexicon uses parts of speech of the system dictionary only (its compiled image then has an
    /// empty POS block, as the dictionaries of the first user-dictionary format had none at all)
    pub system_pos_user_layers: bool,
    /// user-dictionary rows whose declared cost is -32768: the loader replaces it by an estimate (Lexicon::update_cost)
    pub auto_cost: bool,
}

impl Default for DictOpts {
    fn default() -> Self {
        DictOpts {
            min_entries: 8,
            max_entries: 40,
            max_dim: 8,
            square: false,
            splits: true,
            cost_extremes: false,
            synonyms: true,
            non_indexed: true,
            forms: true,
            escapes: true,
            max_key_chars: 4,
            loose_compounds: false,
            anchor_pos: 3,
            no_symbol_pos: false,
            single_unit_splits: false,
            system_pos_user_layers: false,
            auto_cost: true,
        }
    }
}

pub fn gen_cost(rng: &mut Rng, extremes: bool) -> i16 {
    if extremes && rng.chance(1, 6) {
        *rng.pick(&[32767i16, -32767, 0, 1, -1, 32766, 20000, -20000])
    } else if rng.chance(1, 8) {
        rng.range(-800, 0) as i16
    } else {
        rng.range(0, 9000) as i16
    }
}

pub fn gen_matrix(rng: &mut Rng, opts: &DictOpts) -> Matrix {
    let nl = 1 + rng.below(opts.max_dim);
    let nr = if opts.square || rng.chance(2, 3) { nl } else { 1 + rng.below(opts.max_dim) };
    let mut m = Matrix::new(nl, nr);
    for a in 0..nl {
        for b in 0..nr {
            let c = if opts.cost_extremes && rng.chance(1, 10) {
                *rng.pick(&[32767i16, -32768, -32767, 0])
            } else if rng.chance(1, 6) {
                rng.range(-1500, 0) as i16
            } else {
                rng.range(0, 4000) as i16
            };
            m.set(a, b, c);
        }
    }
    m
}

fn gen_forms(rng: &mut Rng, e: &mut Entry, opts: &DictOpts) {
    if !opts.forms {
        return;
    }
    if rng.chance(1, 4) {
        e.headword = if rng.chance(1, 2) { e.key.to_uppercase() } else { format!("{}{}", e.key, rng.s(textgen::KANJI)) };
    }
    match rng.below(4) {
        0 => e.reading = e.headword.clone(),
        1 => e.reading = e.key.clone(),
        2 => e.reading = format!("{}{}", rng.s(textgen::KATA), rng.s(textgen::KATA)),
        _ => e.reading = String::new().to_string() + rng.s(textgen::KATA),
    }
    match rng.below(4) {
        0 => e.norm = e.headword.clone(),
        1 => e.norm = e.key.clone(),
        _ => e.norm = textgen::random_key(rng, 3),
    }
}

/// Random system lexicon whose ids fit the matrix (both as left and right id)
pub fn gen_system(rng: &mut Rng, opts: &DictOpts, m: &Matrix) -> Lexicon {
    let pool = pos_pool();
    let nid = m.nid() as i64;
    let n = opts.min_entries + rng.below(opts.max_entries - opts.min_entries + 1);
    let mut lex = Lexicon { entries: Vec::new(), user: false };
    let mut keys: Vec<String> = Vec::new();
    // a small vocabulary of morph-like keys so that keys share prefixes and concatenate
    let vocab_n = 3 + rng.below(8);
    let vocab: Vec<String> = (0..vocab_n).map(|_| textgen::random_key(rng, 2)).collect();
    for i in 0..n {
        let key = match rng.below(10) {
            0..=2 => textgen::random_key(rng, opts.max_key_chars),
            3..=5 => {
                let parts = 1 + rng.below(3);
                (0..parts).map(|_| rng.pick(&vocab).clone()).collect::<String>()
            }
            6 if !keys.is_empty() => {
                // extension of an existing key
                format!("{}{}", rng.pick(&keys), rng.pick(&vocab))
            }
            7 if !keys.is_empty() => rng.pick(&keys).clone(), // homograph
            8 => rng.pick(&vocab).clone(),
            _ => textgen::random_key(rng, 1),
        };
        // a key that starts with '#' (a CSV reader in comment mode would drop the line)
        let key = if i >= opts.anchor_pos && rng.chance(1, 40) { format!("#{}", key) } else { key };
        let mut p = if i < opts.anchor_pos { pool[i].clone() } else { rng.pick(&pool).clone() };
        if opts.no_symbol_pos && p == pool[2] {
            p = pool[0].clone();
        }
        let mut e = Entry::simple(
            &key,
            rng.range(0, nid - 1) as i16,
            rng.range(0, nid - 1) as i16,
            gen_cost(rng, opts.cost_extremes),
            &p,
        );
        if opts.non_indexed && i >= opts.anchor_pos && rng.chance(1, 10) {
            // any negative left id marks an entry that is not indexed
            e.left = *rng.pick(&[-1i16, -1, -1, -2, -32768]);
            e.right = rng.range(0, nid - 1) as i16;
        }
        gen_forms(rng, &mut e, opts);
        if opts.synonyms && rng.chance(1, 5) {
            for _ in 0..1 + rng.below(3) {
                e.synonyms.push(rng.below(999999) as u32);
            }
        }
        if opts.escapes && rng.chance(1, 10) {
            e.escape = true;
        }
        keys.push(key);
        lex.entries.push(e);
    }
    if opts.forms {
        // dictionary form references
        let n = lex.entries.len();
        for i in 0..n {
            if rng.chance(1, 6) {
                let row = rng.below(n);
                lex.entries[i].dic_form = Some(Ref { dic: 0, row, inline: false });
            }
        }
    }
    if opts.splits {
        add_compounds(rng, &mut lex, None, opts, m);
    }
    lex
}

/// Appends compound entries whose declared A/B units concatenate to the key
pub fn add_compounds(rng: &mut Rng, lex: &mut Lexicon, system: Option<&Lexicon>, opts: &DictOpts, m: &Matrix) {
    let pool = if lex.user { user_pos_pool() } else { pos_pool() };
    let nid = m.nid() as i64;
    let n_comp = 1 + rng.below(5);
    for _ in 0..n_comp {
        let n_units = 2 + rng.below(3);
        let mut units: Vec<Ref> = Vec::new();
        for _ in 0..n_units {
            // pick a unit from own entries or (for user lexicons) from the system
            let from_sys = lex.user && system.is_some() && (lex.entries.is_empty() || rng.chance(1, 2));
            if from_sys {
                let s = system.unwrap();
                units.push(Ref { dic: 0, row: rng.below(s.entries.len()), inline: false });
            } else if !lex.entries.is_empty() {
                let dic = if lex.user { 1 } else { 0 };
                units.push(Ref { dic, row: rng.below(lex.entries.len()), inline: false });
            }
        }
        if units.len() < 2 {
            continue;
        }
        let unit_key = |lex: &Lexicon, r: &Ref| lex.target(r, system).key.clone();
        let mut key: String = units.iter().map(|u| unit_key(lex, u)).collect();
        let loose = opts.loose_compounds && rng.chance(1, 3);
        if loose {
            for _ in 0..1 + rng.below(2) {
                let pool = *rng.pick(textgen::KEY_POOLS);
                key.push_str(rng.s(pool));
            }
        }
        if key.len() > 200 {
            continue;
        }
        let mut p = rng.pick(&pool).clone();
        if opts.no_symbol_pos && !lex.user && p == pos_pool()[2] {
            p = pos_pool()[0].clone();
        }
        let mut e = Entry::simple(
            &key,
            rng.range(0, nid - 1) as i16,
            rng.range(0, nid - 1) as i16,
            // compounds are cheap so that they win against their parts
            rng.range(-2000, 500) as i16,
            &p,
        );
        e.mode = if rng.chance(1, 2) { "C" } else { "*" };
        // B units: merge a random adjacent pair into a (possibly new) entry
        let mut b_units = units.clone();
        if units.len() >= 3 && !loose && rng.chance(2, 3) {
            let at = rng.below(units.len() - 1);
            let merged_key = format!("{}{}", unit_key(lex, &units[at]), unit_key(lex, &units[at + 1]));
            let mut me = Entry::simple(
                &merged_key,
                rng.range(0, nid - 1) as i16,
                rng.range(0, nid - 1) as i16,
                rng.range(0, 3000) as i16,
                rng.pick(&pool),
            );
            me.mode = "B";
            me.split_a = vec![units[at].clone(), units[at + 1].clone()];
            let dic = if lex.user { 1 } else { 0 };
            lex.entries.push(me);
            let mref = Ref { dic, row: lex.entries.len() - 1, inline: false };
            b_units.splice(at..at + 2, [mref]);
        }
        let mut single = false;
        if opts.single_unit_splits && units.len() == 2 && rng.chance(1, 2) {
            let mut me = Entry::simple(&key, rng.range(0, nid - 1) as i16, rng.range(0, nid - 1) as i16, rng.range(0, 3000) as i16, rng.pick(&pool));
            me.mode = "B";
            me.split_a = units.clone();
            let dic = if lex.user { 1 } else { 0 };
            lex.entries.push(me);
            b_units = vec![Ref { dic, row: lex.entries.len() - 1, inline: false }];
            single = true;
        }
        match if single { 5 } else { rng.below(6) } {
            0 => {
                e.split_a = units.clone();
            }
            1 => {
                e.split_b = b_units.clone();
            }
            _ => {
                e.split_a = units.clone();
                e.split_b = b_units.clone();
            }
        }
        if e.split_b.len() == 1 {
            // a single B unit: legal ("not split")
        }
        if rng.chance(1, 3) {
            e.word_structure = units.clone();
        }
        // inline notation for some references (only unambiguous targets)
        for list in [&mut e.split_a, &mut e.split_b] {
            for r in list.iter_mut() {
                if rng.chance(1, 4) {
                    r.inline = true;
                }
            }
        }
        lex.entries.push(e);
    }
    fix_inline(lex, system);
}

/// An inline reference is kept only when the documented resolution rule (own entries first,
/// then system, first row matching key + POS + reading) leads to the intended row and the
/// target is spelled without characters that the inline syntax reserves.
pub fn fix_inline(lex: &mut Lexicon, system: Option<&Lexicon>) {
    let snapshot = lex.clone();
    for e in lex.entries.iter_mut() {
        for list in [&mut e.split_a, &mut e.split_b] {
            for r in list.iter_mut() {
                if r.inline && resolve_inline_model(&snapshot, system, r) != Some((r.dic, r.row)) {
                    r.inline = false;
                }
            }
        }
    }
}

fn inline_ok(e: &Entry) -> bool {
    let bad = |s: &str| s.is_empty() || s.contains('/') || s.contains(',') || s.contains('"') || s.contains('\\') || s.contains('\n') || s.contains('\r');
    // the key must not look like a numeric reference
    let numeric = {
        let k = e.key.strip_prefix('U').unwrap_or(&e.key);
        !k.is_empty() && k.chars().all(|c| c.is_ascii_digit())
    };
    // (the target's headword may differ from its key: own entries are found by key, system entries by headword)
    !bad(&e.key) && !bad(&e.headword) && !bad(&e.reading) && e.pos.iter().all(|p| !bad(p)) && !numeric && !e.escape
}

pub fn resolve_inline_model(lex: &Lexicon, system: Option<&Lexicon>, r: &Ref) -> Option<(u8, usize)> {
    let tgt = lex.target(r, system);
    if !inline_ok(tgt) {
        return None;
    }
    let matches = |e: &Entry| e.key == tgt.key && e.pos == tgt.pos && e.reading == tgt.reading;
    let own_dic = if lex.user { 1 } else { 0 };
    for (i, e) in lex.entries.iter().enumerate() {
        if matches(e) {
            return Some((own_dic, i));
        }
    }
    if let Some(s) = system {
        if lex.user {
            for (i, e) in s.entries.iter().enumerate() {
                // the compiled system dictionary is searched by headword
                if e.headword == tgt.key && e.pos == tgt.pos && e.reading == tgt.reading {
                    return Some((0, i));
                }
            }
        }
    }
    None
}

/// Random user lexicon over a system lexicon
pub fn gen_user(rng: &mut Rng, opts: &DictOpts, m: &Matrix, system: &Lexicon, layer: usize) -> Lexicon {
    let mut pool = user_pos_pool();
    pool.extend(pos_pool().into_iter().take(4));
    let system_only = opts.system_pos_user_layers && rng.chance(1, 2);
    if system_only {
        // the anchor entries guarantee that the system dictionary declares these
        pool = pos_pool().into_iter().take(opts.anchor_pos.max(1)).collect();
    }
    let nid = m.nid() as i64;
    let n = 1 + rng.below(opts.max_entries.min(12));
    let mut lex = Lexicon { entries: Vec::new(), user: true };
    for i in 0..n {
        let key = match rng.below(6) {
            0 => rng.pick(&system.entries).key.clone(),
            1 => format!("{}{}", rng.pick(&system.entries).key, rng.s(textgen::HIRA)),
            _ => textgen::random_key(rng, opts.max_key_chars),
        };
        let p = rng.pick(&pool).clone();
        let mut e = Entry::simple(
            &key,
            rng.range(0, nid - 1) as i16,
            rng.range(0, nid - 1) as i16,
            gen_cost(rng, opts.cost_extremes),
            &p,
        );
        gen_forms(rng, &mut e, opts);
        if opts.auto_cost && rng.chance(1, 6) {
            e.cost = i16::MIN;
        }
        if opts.synonyms && rng.chance(1, 5) {
            e.synonyms.push((layer * 1000 + i) as u32);
        }
        lex.entries.push(e);
    }
    if opts.splits {
        add_compounds(rng, &mut lex, Some(system), opts, m);
        if system_only {
            for e in lex.entries.iter_mut() {
                if !pool.contains(&e.pos) {
                    e.pos = pool[0].clone();
                }
            }
            fix_inline(&mut lex, Some(system));
        }
    }
    lex
}

/// unk.def over the categories of the repository's standard char.def, ids inside the matrix
pub fn gen_unk_def(rng: &mut Rng, m: &Matrix, pool: &[Pos]) -> String {
    let cats = [
        "DEFAULT", "SPACE", "KANJI", "SYMBOL", "NUMERIC", "ALPHA", "HIRAGANA", "KATAKANA", "KANJINUMERIC", "GREEK",
        "CYRILLIC",
    ];
    let nid = m.nid() as i64;
    let mut s = String::new();
    for c in cats {
        let lines = 1 + rng.below(2);
        for _ in 0..lines {
            let p = rng.pick(pool);
            s.push_str(&format!(
                "{},{},{},{},{}\n",
                c,
                rng.range(0, nid - 1),
                rng.range(0, nid - 1),
                rng.range(2000, 20000),
                p.join(",")
            ));
        }
    }
    s
}
