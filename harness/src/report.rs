//! Per-shard result record, panic capture and progress log.

use serde_json::{json, Map, Value};
use std::collections::{BTreeMap, HashSet};
use std::io::{Seek, SeekFrom, Write};
use std::panic::{catch_unwind, AssertUnwindSafe};
use std::sync::Mutex;

static LAST_PANIC: Mutex<Option<(String, String)>> = Mutex::new(None);

pub fn install_panic_hook() {
    std::panic::set_hook(Box::new(|info| {
        let loc = info
            .location()
            .map(|l| format!("{}:{}", l.file(), l.line()))
            .unwrap_or_else(|| "?".to_string());
        let msg = if let Some(s) = info.payload().downcast_ref::<&str>() {
            s.to_string()
        } else if let Some(s) = info.payload().downcast_ref::<String>() {
            s.clone()
        } else {
            "<non-string panic>".to_string()
        };
        eprintln!("[panic] {} {}", loc, msg);
        if let Ok(mut g) = LAST_PANIC.lock() {
            *g = Some((loc, msg));
        }
    }));
}

#[derive(Debug, Clone)]
pub struct Panicked {
    pub site: String,
    pub msg: String,
}

/// Runs the closure, turning a panic into a value that carries the panic site
pub fn guard<T, F: FnOnce() -> T>(f: F) -> Result<T, Panicked> {
    match catch_unwind(AssertUnwindSafe(f)) {
        Ok(v) => Ok(v),
        Err(_) => {
            let (site, msg) = LAST_PANIC
                .lock()
                .ok()
                .and_then(|mut g| g.take())
                .unwrap_or(("?".to_string(), "?".to_string()));
            // strip the absolute prefix so that sites are stable: keep from "sudachi/src" on
            let site = match site.find("sudachi/src/") {
                Some(i) => site[i..].to_string(),
                None => site,
            };
            Err(Panicked { site, msg })
        }
    }
}

pub struct Report {
    pub prop: String,
    pub evaluations: u64,
    pub fingerprints: HashSet<u64>,
    pub counters: BTreeMap<String, u64>,
    pub samples: Vec<Value>,
    pub violations: Vec<Value>,
    pub violation_count: u64,
    pub skipped_panics: u64,
    pub skipped_panic_examples: Vec<Value>,
    pub notes: Vec<String>,
    progress: Option<std::fs::File>,
    pub max_samples: usize,
    /// index of the scenario being executed (what `--only` needs to re-run it)
    pub cur_index: u64,
    pub seed: u64,
    pub stage: String,
    pub tier: String,
}

impl Report {
    pub fn new(prop: &str, progress_path: Option<&str>) -> Report {
        let progress = progress_path.and_then(|p| std::fs::File::create(p).ok());
        Report {
            prop: prop.to_string(),
            evaluations: 0,
            fingerprints: HashSet::new(),
            counters: BTreeMap::new(),
            samples: Vec::new(),
            violations: Vec::new(),
            violation_count: 0,
            skipped_panics: 0,
            skipped_panic_examples: Vec::new(),
            notes: Vec::new(),
            progress,
            max_samples: 4,
            cur_index: 0,
            seed: 0,
            stage: String::new(),
            tier: String::new(),
        }
    }

    /// Record which scenario is about to run (so that an abort can be attributed)
    pub fn progress(&mut self, what: &str) {
        self.progress_idx(self.cur_index, what)
    }

    pub fn progress_idx(&mut self, index: u64, what: &str) {
        self.cur_index = index;
        let what = format!("{{\"index\": {}, \"what\": {:?}}}", index, what);
        if let Some(f) = self.progress.as_mut() {
            let _ = f.seek(SeekFrom::Start(0));
            let _ = f.set_len(0);
            let _ = f.write_all(what.as_bytes());
        }
    }

    pub fn eval(&mut self) {
        self.evaluations += 1;
    }

    pub fn evals(&mut self, n: u64) {
        self.evaluations += n;
    }

    pub fn nontrivial(&mut self, fp: u64) {
        self.fingerprints.insert(fp);
    }

    pub fn count(&mut self, key: &str, n: u64) {
        *self.counters.entry(key.to_string()).or_insert(0) += n;
    }

    pub fn max(&mut self, key: &str, n: u64) {
        let e = self.counters.entry(key.to_string()).or_insert(0);
        if n > *e {
            *e = n;
        }
    }

    pub fn sample(&mut self, v: Value) {
        if self.samples.len() < self.max_samples {
            self.samples.push(v);
        }
    }

    pub fn want_sample(&self) -> bool {
        self.samples.len() < self.max_samples
    }

    /// kind: short class of the failure; site: code location or check name; probe: label of a
    /// labelled probe scenario ("" for the main generators)
    pub fn violation(&mut self, kind: &str, site: &str, msg: &str, probe: &str, scenario: Value) {
        self.violation_count += 1;
        // records that carry the label of a known finding must never crowd out unlabelled ones: separate quotas
        let same_label = self.violations.iter().filter(|v| v["probe"].as_str().unwrap_or("") == probe).count();
        let quota = if probe.is_empty() { 40 } else { 6 };
        if same_label < quota {
            self.violations.push(json!({
                "property": self.prop, "kind": kind, "site": site, "msg": msg,
                "probe": probe, "scenario": scenario,
                "rerun": {"seed": self.seed, "stage": self.stage, "tier": self.tier, "only": self.cur_index}
            }));
        }
    }

    /// A panic inside a monitor whose property does not speak about totality: not a verdict
    pub fn skipped_panic(&mut self, p: &Panicked, scenario: Value) {
        self.skipped_panics += 1;
        if self.skipped_panic_examples.len() < 3 {
            self.skipped_panic_examples
                .push(json!({"site": p.site, "msg": p.msg, "scenario": scenario}));
        }
    }

    pub fn to_json(&self) -> Value {
        let mut counters = Map::new();
        for (k, v) in &self.counters {
            counters.insert(k.clone(), json!(v));
        }
        let fps: Vec<String> = self.fingerprints.iter().map(|x| format!("{:016x}", x)).collect();
        json!({
            "property": self.prop,
            "evaluations": self.evaluations,
            "fingerprints": fps,
            "counters": counters,
            "samples": self.samples,
            "violations": self.violations,
            "violation_count": self.violation_count,
            "skipped_panics": self.skipped_panics,
            "skipped_panic_examples": self.skipped_panic_examples,
            "notes": self.notes,
            "complete": true
        })
    }

    pub fn write(&self, path: &str) {
        let v = self.to_json();
        std::fs::write(path, serde_json::to_vec(&v).unwrap()).expect("write shard report");
    }
}

/// Shortens long strings for samples / replay files that are meant to be read by people
pub fn clip(s: &str, max_chars: usize) -> String {
    if s.chars().count() <= max_chars {
        s.to_string()
    } else {
        let head: String = s.chars().take(max_chars).collect();
        format!("{}…(+{} chars)", head, s.chars().count() - max_chars)
    }
}
