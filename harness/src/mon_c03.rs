//! C03 — tokenization is total: never panics, succeeds within the documented limits,
//! reports input-too-long beyond them, every accessor of every morpheme is safe to call.

use serde_json::{json, Value};
use sudachi::analysis::Mode;
use sudachi::dic::subset::InfoSubset;
use sudachi::error::SudachiError;
use sudachi::prelude::MorphemeList;

use crate::dictgen::{self, DictOpts};
use crate::env::Place;
use crate::model::{Entry, Lexicon, Matrix, Ref};
use crate::mon_c01::check_partition;
use crate::normref::{self, RewriteTable};
use crate::report::{clip, guard, Report};
use crate::rng::{fnv, Rng};
use crate::scen::{build_world_from, observe, PluginOpts, Tok, World, MODES};
use crate::textgen;
use crate::Ctx;

const MAX_ORIG: usize = 49149;
const MAX_NORM: usize = 65535;

fn touch_everything(t: &Tok, text: &str, internal_cost: bool) -> Result<(usize, usize), String> {
    let obs = observe(&t.list);
    if obs.is_empty() && t.normalized.is_empty() {
        // an input whose normalised form is empty yields no morphemes
        let _ = t.list.surface().len();
        return Ok((0, 0));
    }
    if let Some(m) = check_partition(text, &obs, 0, text.len()) {
        return Err(format!("successful result is not a partition of the input (truncated?): {}", m));
    }
    if internal_cost {
        let _ = t.list.get_internal_cost();
    }
    let _ = t.list.surface().len();
    let mut subs = 0;
    let mut sub = MorphemeList::empty(t.list.dict().clone());
    for i in 0..t.list.len() {
        let m = t.list.get(i);
        let _ = format!("{:?}", m);
        let _ = m.get_word_info().head_word_length();
        let _ = m.get_word_info().a_unit_split().len() + m.get_word_info().b_unit_split().len() + m.get_word_info().word_structure().len();
        let _ = m.get_word_info().dictionary_form_word_id();
        for sm in [Mode::A, Mode::B] {
            sub.clear();
            if let Ok(true) = m.split_into(sm, &mut sub) {
                let so = observe(&sub);
                subs += so.len();
            }
        }
    }
    Ok((obs.len(), subs))
}

struct Outcome {
    ok: bool,
    too_long: bool,
    other_err: Option<String>,
}

fn classify(r: &Result<(), SudachiError>) -> Outcome {
    match r {
        Ok(()) => Outcome { ok: true, too_long: false, other_err: None },
        Err(SudachiError::InputTooLong(_, _)) => Outcome { ok: false, too_long: true, other_err: None },
        Err(e) => Outcome { ok: false, too_long: false, other_err: Some(format!("{:?}", e)) },
    }
}

fn run_text<'a>(world: &'a World, t: &mut Tok<'a>, mode: Mode, text: &str, expect: Option<bool>, probe: &str, rep: &mut Report, scen: &dyn Fn() -> Value) -> bool {
    rep.eval();
    let r = guard(|| t.run(text));
    match r {
        Err(p) => {
            rep.violation("panic", &p.site, &p.msg, probe, scen());
            *t = Tok::new(&world.dict, mode);
            return false;
        }
        Ok(res) => {
            let o = classify(&res);
            if let Some(e) = o.other_err {
                rep.violation("unexpected_error", "do_tokenize", &format!("error for an input inside the limits with a fallback provider: {}", clip(&e, 200)), probe, scen());
                return false;
            }
            if text.len() > MAX_ORIG && !o.too_long {
                rep.violation("limit_not_enforced", "do_tokenize", &format!("input of {} bytes (> {}) was accepted", text.len(), MAX_ORIG), probe, scen());
                return false;
            }
            match expect {
                Some(true) if !o.ok => {
                    rep.violation("unexpected_error", "do_tokenize", &format!("input of {} bytes inside both limits was rejected as too long", text.len()), probe, scen());
                    return false;
                }
                Some(false) if o.ok => {
                    rep.violation("limit_not_enforced", "do_tokenize", &format!("input whose normalised form exceeds {} bytes was accepted (normalised length {})", MAX_NORM, t.normalized.len()), probe, scen());
                    return false;
                }
                _ => {}
            }
            if o.too_long {
                rep.count("too_long_errors", 1);
                return true;
            }
        }
    }
    match guard(|| touch_everything(t, text, mode == Mode::C || probe == "D19")) {
        Err(p) => {
            rep.violation("accessor_panic", &p.site, &p.msg, probe, scen());
            false
        }
        Ok(Err(m)) => {
            rep.violation("truncated_result", "touch_everything", &m, probe, scen());
            false
        }
        Ok(Ok((n, subs))) => {
            rep.count("morphemes_touched", n as u64);
            rep.count("split_morphemes_touched", subs as u64);
            true
        }
    }
}

fn hostile_text(rng: &mut Rng, keys: &[String]) -> String {
    match rng.below(8) {
        0 => textgen::noise(rng, 40),
        1 => {
            let mut s = String::new();
            for _ in 0..1 + rng.below(30) {
                s.push_str(rng.s(textgen::HOSTILE));
            }
            s
        }
        2 => {
            let mut s = String::new();
            for _ in 0..1 + rng.below(12) {
                s.push_str(rng.s(textgen::EXPANDING));
            }
            s
        }
        3 => {
            // one character repeated: long class runs (> 64 exercises CreatedWords::Maybe)
            let c = textgen::pick_char(rng);
            c.repeat(1 + rng.below(150))
        }
        4 => String::new(),
        5 => {
            // only prolonged sound marks / brackets: candidates for a normalised text that is empty
            let mut s = String::new();
            for _ in 0..1 + rng.below(6) {
                s.push_str(rng.s(&["ー", "-", "⁓", "〜", "〰", "~", "ｰ", "!", "っ", "(", ")", "京"]));
            }
            s
        }
        _ => textgen::text_from_keys(rng, keys, 10),
    }
}

fn check_hooks(before: [u64; 6], rep: &mut Report, probe: &str, scen: Value) -> [u64; 6] {
    let after = sudachi::verif::counters();
    rep.count("matrix_reads_seen_by_hook", after[0] - before[0]);
    rep.count("trie_reads_seen_by_hook", after[2] - before[2]);
    if after[1] != before[1] || after[3] != before[3] || after[5] != before[5] {
        let what = sudachi::verif::take_first_oob().unwrap_or_default();
        rep.violation("oob_access", "hooks H2/H3", &what, probe, scen);
    }
    after
}

fn probe_d9(rep: &mut Report) {
    // word "ab" declaring the A split "abc/d": the units do not concatenate to the key
    let mut rng = Rng::new(9);
    let pool = dictgen::pos_pool();
    let m = Matrix::new(1, 1);
    let mut lex = Lexicon::default();
    for (i, k) in ["abc", "d", "x"].iter().enumerate() {
        lex.entries.push(Entry::simple(k, 0, 0, 100, &pool[i]));
    }
    let mut e = Entry::simple("ab", 0, 0, -500, &pool[0]);
    e.mode = "C";
    e.split_a = vec![Ref { dic: 0, row: 0, inline: false }, Ref { dic: 0, row: 1, inline: false }];
    lex.entries.push(e);
    let world = match build_world_from(&mut rng, &DictOpts::default(), m, lex, PluginOpts::none(), Place::Owned) {
        Ok(w) => w,
        Err(e) => {
            rep.notes.push(format!("probe D9 could not be built: {}", e));
            return;
        }
    };
    let mut t = Tok::new(&world.dict, Mode::A);
    let scen = || json!({"probe": "D9", "text": "ab", "mode": "A", "world": world.describe(true)});
    run_text(&world, &mut t, Mode::A, "ab", Some(true), "D9", rep, &scen);
    rep.count("probe_scenarios", 1);
}

fn probe_d19(rep: &mut Report) {
    // a compound with a negative cost split in mode A: the sub-morphemes carry the sentinel
    // cost i32::MAX, and MorphemeList::get_internal_cost subtracts first from last
    let mut rng = Rng::new(19);
    let pool = dictgen::pos_pool();
    let m = Matrix::new(1, 1);
    let mut lex = Lexicon::default();
    for (i, k) in ["東京", "都", "に"].iter().enumerate() {
        lex.entries.push(Entry::simple(k, 0, 0, 3000, &pool[i]));
    }
    let mut e = Entry::simple("東京都", 0, 0, -3000, &pool[0]);
    e.mode = "C";
    e.split_a = vec![Ref { dic: 0, row: 0, inline: false }, Ref { dic: 0, row: 1, inline: false }];
    lex.entries.push(e);
    lex.entries.push(Entry::simple("へ", 0, 0, -2000, &pool[1]));
    let world = match build_world_from(&mut rng, &DictOpts::default(), m, lex, PluginOpts::none(), Place::Owned) {
        Ok(w) => w,
        Err(e) => {
            rep.notes.push(format!("probe D19 could not be built: {}", e));
            return;
        }
    };
    let mut t = Tok::new(&world.dict, Mode::A);
    let scen = || json!({"probe": "D19", "text": "東京都へ", "mode": "A", "world": world.describe(true)});
    run_text(&world, &mut t, Mode::A, "東京都へ", Some(true), "D19", rep, &scen);
    rep.count("probe_scenarios", 1);
}

fn probe_d10(rep: &mut Report) {
    // 1x1 matrix cost 32767, word "a" cost 32767: the true path cost exceeds i32
    let mut rng = Rng::new(10);
    let pool = dictgen::pos_pool();
    let mut m = Matrix::new(1, 1);
    m.set(0, 0, 32767);
    let mut lex = Lexicon::default();
    // a digit: every position can start a word, so the chain of dictionary nodes is built
    lex.entries.push(Entry::simple("7", 0, 0, 32767, &pool[0]));
    lex.entries.push(Entry::simple("b", 0, 0, 1, &pool[1]));
    lex.entries.push(Entry::simple("c", 0, 0, 1, &pool[2]));
    let world = match build_world_from(&mut rng, &DictOpts::default(), m, lex, PluginOpts::none(), Place::Owned) {
        Ok(w) => w,
        Err(e) => {
            rep.notes.push(format!("probe D10 could not be built: {}", e));
            return;
        }
    };
    let text = "7".repeat(MAX_ORIG);
    let mut t = Tok::new(&world.dict, Mode::C);
    let scen = || json!({"probe": "D10", "text": "\"7\" x 49149", "world": world.describe(true)});
    let ok = run_text(&world, &mut t, Mode::C, &text, Some(true), "D10", rep, &scen);
    if ok {
        // release build: no overflow panic; the reported cost must still be the true sum
        // recompute the cumulative cost of the returned path in i64 from the declared parameters
        let mut truth: i64 = 0;
        for m in t.list.iter() {
            let c = if m.is_oov() { 10000 } else { 32767 };
            truth += 32767 + c;
        }
        let got = t.list.get(t.list.len() - 1).total_cost() as i64;
        if got != truth {
            rep.violation("cost_overflow", "Morpheme::total_cost", &format!("cumulative cost of the last morpheme is {} but the sum along the returned path is {}", got, truth), "D10", scen());
        }
    }
    rep.count("probe_scenarios", 1);
}

pub fn run(ctx: &Ctx, rep: &mut Report) {
    let small = matches!(ctx.stage.as_str(), "valgrind" | "asan" | "miri");
    let (n_worlds, texts_per_world) = match ctx.stage.as_str() {
        "miri" => (ctx.nshards, 14),
        "valgrind" => (ctx.nshards * 2, 12),
        "asan" => (ctx.n(160, 1600), 40),
        _ => (ctx.n(480, 16000), if ctx.quick() { 40 } else { 100 }),
    };
    let std_text = std::fs::read_to_string(crate::env::repo_root().join("resources/rewrite.def")).unwrap_or_default();
    let std_table = RewriteTable::parse(&format!("{}\n@\t@@@@\n", std_text));
    let mut hooks = sudachi::verif::counters();
    if !small {
        // the debug dumps of the tokenizer go to standard output: not needed (the report is written to --out)
        crate::env::silence_stdout();
    }
    for wi in ctx.indices(n_worlds) {
        if ctx.out_of_time() {
            rep.notes.push(format!("stopped at world {} (time budget)", wi));
            break;
        }
        let mut rng = Rng::derive(ctx.seed, 0xC03, wi);
        rep.progress_idx(wi, "C03 world");
        // every 8th world is a "limits" world: moderate costs (the i32 path cost stays in range),
        // only the default input-text plugin, so that the reference normaliser predicts the length
        let limits = wi % 8 == 7 && ctx.stage != "miri" && ctx.stage != "valgrind";
        let dopts = DictOpts { cost_extremes: !limits && wi % 2 == 0, loose_compounds: true, ..DictOpts::default() };
        let place = if wi % 3 == 2 || small { Place::Offset(1) } else { Place::Owned };
        let built = if limits {
            guard(|| {
                let matrix = dictgen::gen_matrix(&mut rng, &dopts);
                let sys = dictgen::gen_system(&mut rng, &dopts, &matrix);
                let mut p = PluginOpts::none();
                p.default_input = true;
                p.mecab = rng.chance(1, 2);
                p.n_users = rng.below(2);
                // the standard table plus one rule that turns one ASCII character into four
                p.rewrite_def = Some(format!("{}\n@\t@@@@\n", std_text));
                build_world_from(&mut rng, &dopts, matrix, sys, p, place)
            })
        } else {
            // every third world: unusual settings of the input-text plugins (empty / longer replacement ...)
            let odd_cfg = wi % 3 == 1;
            // every 8th world asks for 14 or 15 user dictionaries (15 must be refused when loading)
            let many = wi % 8 == 5;
            guard(|| crate::scen::build_world_tweak(&mut rng, &dopts, true, place, |r, p| {
                if odd_cfg {
                    p.randomize_input_cfg(r)
                }
                if many {
                    p.n_users = if r.chance(2, 3) { 15 } else { 14 };
                }
            }))
        };
        // every 16th world instead: 15 user dictionaries, the last one with many cheap words. One too many: loading must
        // refuse the stack (counted); if it ever loads, its words are analysed like all others
        let built = if wi % 16 == 13 && !small {
            guard(|| {
                let matrix = dictgen::gen_matrix(&mut rng, &dopts);
                let sys = dictgen::gen_system(&mut rng, &dopts, &matrix);
                let nid = matrix.nid() as i64;
                let mut users: Vec<Lexicon> = (0..15).map(|l| dictgen::gen_user(&mut rng, &dopts, &matrix, &sys, l)).collect();
                let pool = dictgen::pos_pool();
                for k in 0..200 {
                    let key = format!("末{}{}", rng.s(textgen::HIRA), k);
                    users[14].entries.push(Entry::simple(&key, rng.range(0, nid - 1) as i16, rng.range(0, nid - 1) as i16, -3000, rng.pick(&pool)));
                }
                let mut p = PluginOpts::random(&mut rng, &matrix, true);
                p.n_users = 15;
                crate::scen::build_world_users(&mut rng, &dopts, matrix, sys, Some(users), p, place)
            })
        } else {
            built
        };
        let world = match built {
            Ok(Ok(w)) => w,
            Ok(Err(e)) => {
                rep.count("worlds_rejected", 1);
                if e.contains("TooManyDictionaries") {
                    rep.count("stacks_of_15_user_dictionaries_refused", 1);
                } else {
                    rep.notes.push(format!("world {}: {}", wi, clip(&e, 200)));
                }
                continue;
            }
            Err(p) => {
                rep.skipped_panic(&p, json!({"world": wi, "stage": "build"}));
                continue;
            }
        };
        rep.count("worlds", 1);
        if world.users.len() >= 14 {
            rep.count("worlds_with_14_or_more_user_dictionaries", 1);
        }
        let keys = world.keys();
        let mut toks: Vec<Tok> = MODES.iter().map(|m| Tok::new(&world.dict, *m)).collect();
        let mut texts: Vec<(String, Option<bool>)> = vec![];
        if limits {
            rep.count("limit_worlds", 1);
            // exact byte-length classes around both limits
            for n in [MAX_ORIG - 1, MAX_ORIG, MAX_ORIG + 1, MAX_ORIG + 3, 60000, 70000] {
                let unit = *rng.pick(&["a", "あ", "京", "7", "𠮷"]);
                let mut s = unit.repeat(n / unit.len());
                while s.len() < n {
                    s.push('b');
                }
                let exp = s.len() <= MAX_ORIG;
                texts.push((s, Some(exp)));
            }
            // U+FDFA: 3 bytes -> 33 bytes after NFKC
            for target in [MAX_NORM - 40, MAX_NORM - 1, MAX_NORM, MAX_NORM + 1, MAX_NORM + 2, MAX_NORM + 33, 90000] {
                let k = (target / 33).min(MAX_ORIG / 3);
                let mut s = "\u{fdfa}".repeat(k);
                let mut norm_len = 33 * k;
                while norm_len < target && s.len() < MAX_ORIG {
                    s.push('x');
                    norm_len += 1;
                }
                let reference = normref::normalize(&std_table, &s).len();
                if reference != norm_len {
                    rep.notes.push(format!("reference normaliser disagrees with the construction: {} vs {}", reference, norm_len));
                    continue;
                }
                let exp = s.len() <= MAX_ORIG && norm_len <= MAX_NORM;
                texts.push((s, Some(exp)));
            }
            // exactly 65,533 .. 65,536 one-byte characters after normalisation ('@' becomes '@@@@'): the largest texts the
            // lattice can hold, counted in characters as well as in bytes
            for target in [MAX_NORM - 2, MAX_NORM - 1, MAX_NORM, MAX_NORM + 1] {
                let k = target / 4;
                let mut s = "@".repeat(k);
                let mut n = 4 * k;
                while n < target {
                    s.push('x');
                    n += 1;
                }
                if normref::normalize(&std_table, &s).len() == target {
                    texts.push((s, Some(target <= MAX_NORM)));
                }
            }
            // ordinary inputs in between (a failed analysis must leave the tokenizer usable)
            for _ in 0..6 {
                texts.push((hostile_text(&mut rng, &keys), None));
            }
            rng.shuffle(&mut texts);
        } else {
            for k in 0..texts_per_world {
                texts.push((hostile_text(&mut rng, &keys), None));
                if k % 9 == 4 {
                    // a non-empty analysis followed by two empty ones on the same tokenizer
                    texts.push((String::new(), None));
                    texts.push((String::new(), None));
                }
            }
        }
        if world.users.len() >= 15 {
            // texts made of the words of the last layer
            let last: Vec<String> = world.users[14].entries.iter().filter(|e| e.key.starts_with('末')).map(|e| e.key.clone()).collect();
            for _ in 0..30 {
                let t: String = (0..3).map(|_| rng.pick(&last[..]).clone()).collect();
                texts.push((t, None));
            }
        }
        let mut last_mi = 0usize;
        for (ti, (text, expect)) in texts.iter().enumerate() {
            let mi = if text.is_empty() && ti > 0 { last_mi } else { rng.below(3) };
            last_mi = mi;
            let mode = MODES[mi];
            if rng.chance(1, 6) {
                let bits = rng.next() as u32;
                toks[mi].tok.set_subset(InfoSubset::from_bits_truncate(bits));
                rep.count("subset_changes", 1);
            }
            let expect = match expect {
                Some(e) => Some(*e),
                None => Some(true).filter(|_| text.len() < 2000),
            };
            let scen = || json!({"world_index": wi, "text_index": ti, "text": clip(text, 300), "text_bytes": text.len(), "mode": crate::scen::mode_name(mode), "world": world.describe(true)});
            let ok = run_text(&world, &mut toks[mi], mode, text, expect, "", rep, &scen);
            if ok {
                if text.len() > 40000 {
                    rep.count("long_inputs_handled", 1);
                }
                rep.nontrivial(fnv(format!("{}|{}|{}", wi, mi, if text.len() < 500 { text.clone() } else { format!("{}:{:x}", text.len(), fnv(text.as_bytes())) }).as_bytes()));
            }
        }
        // a tokenizer with the debug flag on (what the CLI's --debug and the Python debug option use): the lattice and
        // path dumps walk internal state that ordinary analysis never reads; reused for inputs of varying length
        if !small && !limits {
            let dmode = MODES[rng.below(3)];
            let mut dt = Tok::new(&world.dict, dmode);
            dt.tok.set_debug(true);
            let mut lens = [12usize, 3, 7, 0, 1, 9];
            rng.shuffle(&mut lens);
            for (k, n) in lens.iter().enumerate() {
                let full = hostile_text(&mut rng, &keys);
                let text: String = full.chars().take(*n).collect();
                let scen = || json!({"world_index": wi, "debug_tokenizer": true, "debug_text_index": k, "text": text, "mode": crate::scen::mode_name(dmode), "world": world.describe(true)});
                if run_text(&world, &mut dt, dmode, &text, Some(true), "", rep, &scen) {
                    rep.count("debug_mode_analyses", 1);
                } else {
                    dt.tok.set_debug(true);
                }
            }
        }
        hooks = check_hooks(hooks, rep, "", json!({"world_index": wi, "world": world.describe(true)}));
        if rep.want_sample() && !limits {
            rep.sample(json!({"texts": texts.iter().take(5).map(|t| clip(&t.0, 60)).collect::<Vec<_>>(), "config": world.cfg_json}));
        }
    }
    // a configuration without any OOV provider must be refused when loading (analysis relies on a last provider)
    if ctx.shard == 1 % ctx.nshards && ctx.only.is_none() && !small {
        rep.progress_idx(u64::MAX - 30, "no OOV provider");
        let mut rng = Rng::new(30);
        let dopts = DictOpts::default();
        let matrix = dictgen::gen_matrix(&mut rng, &dopts);
        let sys = dictgen::gen_system(&mut rng, &dopts, &matrix);
        if let Ok(Ok(w)) = guard(|| build_world_from(&mut rng, &dopts, matrix, sys, PluginOpts::none(), Place::Owned)) {
            let mut cfg = w.cfg_json.clone();
            cfg["oovProviderPlugin"] = json!([]);
            let c = crate::env::config(&cfg, &w.res);
            rep.eval();
            match guard(|| crate::env::load(&c, &w.sys_bytes, &[], Place::Owned)) {
                Ok(Err(_)) => rep.count("configurations_without_oov_provider_refused", 1),
                Ok(Ok(d)) => {
                    // it loaded: then analysis must be total with it as well
                    let mut t = Tok::new(&d, Mode::C);
                    for text in ["京都にxyz", "ⓧ", "あ"] {
                        if let Err(p) = guard(|| t.run(text)) {
                            rep.violation("panic", &p.site, &format!("configuration with an empty oovProviderPlugin list was accepted and analysis of {:?} panics: {}", text, p.msg), "", json!({"config": cfg}));
                            break;
                        }
                    }
                }
                Err(p) => rep.violation("panic", &p.site, &format!("loading a configuration with an empty oovProviderPlugin list panics: {}", p.msg), "", json!({"config": cfg})),
            }
        }
    }
    // labelled probe scenarios of the known findings (main stage, shard 0 only)
    if ctx.shard == 0 && ctx.only.is_none() && !small {
        rep.progress_idx(u64::MAX - 9, "probe D9");
        probe_d9(rep);
        rep.progress_idx(u64::MAX - 10, "probe D10");
        probe_d10(rep);
        rep.progress_idx(u64::MAX - 19, "probe D19");
        probe_d19(rep);
    }
}
