//! The ten loadable word fields and their public accessors.

use sudachi::dic::lexicon::word_infos::WordInfo;
use sudachi::dic::subset::InfoSubset;

pub const FIELD_NAMES: [&str; 10] = [
    "surface", "head_word_length", "pos_id", "normalized_form", "dictionary_form(+id)", "reading_form", "a_unit_split", "b_unit_split",
    "word_structure", "synonym_group_ids",
];

/// Value of every field as read through its public accessor; index = bit number in InfoSubset
pub fn field_values(wi: &WordInfo) -> [String; 10] {
    let ids = |v: &[sudachi::dic::word_id::WordId]| v.iter().map(|w| format!("{}:{}", w.dic(), w.word())).collect::<Vec<_>>().join("/");
    [
        wi.surface().to_string(),
        wi.head_word_length().to_string(),
        wi.pos_id().to_string(),
        wi.normalized_form().to_string(),
        format!("{}|{}", wi.dictionary_form_word_id(), wi.dictionary_form()),
        wi.reading_form().to_string(),
        ids(wi.a_unit_split()),
        ids(wi.b_unit_split()),
        ids(wi.word_structure()),
        wi.synonym_group_ids().iter().map(|x| x.to_string()).collect::<Vec<_>>().join("/"),
    ]
}

pub fn subset_of(bits: u32) -> InfoSubset {
    InfoSubset::from_bits_truncate(bits & 0x3ff)
}

pub const PATH_REWRITE_NEEDS: u32 = (1 << 0) | (1 << 2) | (1 << 3); // surface, POS, normalised form
