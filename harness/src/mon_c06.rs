//! C06 — the dictionary compiler is total and never emits an invalid dictionary.
//! (a) totality under mutated inputs, (b) fault enumeration over sink failure offsets,
//! (c) every accepted dictionary must load and analyse text.

use serde_json::{json, Value};
use std::io::Write;
use sudachi::analysis::Mode;
use sudachi::dic::build::DictBuilder;

use crate::dictgen::{self, DictOpts};
use crate::env::{self, Place, ResDir};
use crate::model::{join_csv, pos, Entry, Lexicon, Matrix, Ref};
use crate::mon_c01::check_partition;
use crate::report::{clip, guard, Report};
use crate::rng::{fnv, Rng};
use crate::scen::{observe, Tok, MODES};
use crate::Ctx;

pub struct FaultSink {
    pub limit: usize,
    pub written: usize,
    pub short: bool,
    pub errors: usize,
}

impl Write for FaultSink {
    fn write(&mut self, buf: &[u8]) -> std::io::Result<usize> {
        if buf.is_empty() {
            return Ok(0);
        }
        if self.written + buf.len() <= self.limit {
            self.written += buf.len();
            Ok(buf.len())
        } else if self.short && self.written < self.limit {
            let n = self.limit - self.written;
            self.written += n;
            Ok(n)
        } else {
            self.errors += 1;
            Err(std::io::Error::new(std::io::ErrorKind::Other, "sink full"))
        }
    }

    fn flush(&mut self) -> std::io::Result<()> {
        Ok(())
    }
}

fn compile_to<W: Write>(matrix: &[u8], csv: &[u8], w: &mut W) -> Result<(), String> {
    compile_seq(matrix, csv, w, 0)
}

/// seq 0: the documented sequence; 1: the error of resolve() is ignored and compile() is called anyway;
/// 2: compile() without resolve(); 3: without read_conn(); 4: the error of read_conn() is ignored.
/// Every sequence must end in Ok or Err, never in a panic, and Ok means a valid dictionary.
fn compile_seq<W: Write>(matrix: &[u8], csv: &[u8], w: &mut W, seq: u8) -> Result<(), String> {
    let mut b = DictBuilder::new_system();
    b.set_compile_time(std::time::UNIX_EPOCH + std::time::Duration::from_secs(env::FIXED_TIME_SECS));
    match seq {
        // 3: no connection matrix is offered at all; 4: the error of read_conn() is ignored
        3 => {}
        4 => {
            let _ = b.read_conn(matrix);
        }
        _ => b.read_conn(matrix).map_err(|e| format!("conn: {:?}", e))?,
    }
    b.read_lexicon(csv).map_err(|e| format!("lexicon: {:?}", e))?;
    match seq {
        0 => {
            b.resolve().map_err(|e| format!("resolve: {:?}", e))?;
        }
        1 => {
            let _ = b.resolve();
        }
        _ => {}
    }
    b.compile(w).map_err(|e| format!("compile: {:?}", e))
}

/// Longer call sequences over the same inputs:
/// 5: lexicon in two parts with resolve() between them and none afterwards; 6: the same with a second resolve();
/// 7: a second read_conn() with a smaller matrix whose text breaks off, error ignored.
fn compile_multi<W: Write>(matrix: &[u8], csv_a: &[u8], csv_b: &[u8], w: &mut W, seq: u8) -> Result<(), String> {
    let mut b = DictBuilder::new_system();
    b.set_compile_time(std::time::UNIX_EPOCH + std::time::Duration::from_secs(env::FIXED_TIME_SECS));
    b.read_conn(matrix).map_err(|e| format!("conn: {:?}", e))?;
    if seq == 7 {
        let _ = b.read_conn(&b"1 1\n0 0 7\n0 x\n"[..]);
    }
    if seq == 8 {
        // a larger matrix was read before: the real one replaces it completely
        let mut b2 = DictBuilder::new_system();
        b2.set_compile_time(std::time::UNIX_EPOCH + std::time::Duration::from_secs(env::FIXED_TIME_SECS));
        b2.read_conn(&b"9 11\n8 10 77\n0 0 -5\n"[..]).map_err(|e| format!("first conn: {:?}", e))?;
        b2.read_conn(matrix).map_err(|e| format!("conn: {:?}", e))?;
        b2.read_lexicon(csv_a).map_err(|e| format!("lexicon: {:?}", e))?;
        b2.read_lexicon(csv_b).map_err(|e| format!("lexicon: {:?}", e))?;
        b2.resolve().map_err(|e| format!("resolve: {:?}", e))?;
        return b2.compile(w).map_err(|e| format!("compile: {:?}", e));
    }
    if seq == 9 {
        // compile(), more rows, resolve(), compile() again on the same builder
        b.read_lexicon(csv_a).map_err(|e| format!("lexicon: {:?}", e))?;
        let _ = b.resolve();
        let mut scratch = Vec::new();
        let _ = b.compile(&mut scratch);
        b.read_lexicon(csv_b).map_err(|e| format!("lexicon: {:?}", e))?;
        b.resolve().map_err(|e| format!("resolve: {:?}", e))?;
        return b.compile(w).map_err(|e| format!("compile: {:?}", e));
    }
    if seq == 10 {
        // a compile() whose sink fails somewhere, then a second compile() of the same builder into a sound sink
        b.read_lexicon(csv_a).map_err(|e| format!("lexicon: {:?}", e))?;
        b.read_lexicon(csv_b).map_err(|e| format!("lexicon: {:?}", e))?;
        b.resolve().map_err(|e| format!("resolve: {:?}", e))?;
        let mut probe = Vec::new();
        b.compile(&mut probe).map_err(|e| format!("compile: {:?}", e))?;
        // (fail offsets spread over the whole image, dense in its last quarter where the word records and their offsets are)
        let n = probe.len().max(1);
        let h = fnv(&probe) as usize;
        for limit in [h % n, n - 1 - (h / 7) % (n / 4 + 1), n - 1 - (h / 131) % (n / 16 + 1)] {
            let mut fs = FaultSink { limit, written: 0, short: h % 2 == 0, errors: 0 };
            if b.compile(&mut fs).is_ok() {
                return Err(format!("compile: reports success although the sink failed at byte {}", limit));
            }
        }
        return b.compile(w).map_err(|e| format!("compile: {:?}", e));
    }
    if seq == 11 {
        // resolve(), then a read_lexicon() that fails on its last line (error ignored): whatever that read left behind,
        // compile() ends in a value
        b.read_lexicon(csv_a).map_err(|e| format!("lexicon: {:?}", e))?;
        let _ = b.resolve();
        let mut broken = csv_b.to_vec();
        broken.extend_from_slice(b"x,y\n");
        let _ = b.read_lexicon(&broken[..]);
        return b.compile(w).map_err(|e| format!("compile: {:?}", e));
    }
    b.read_lexicon(csv_a).map_err(|e| format!("lexicon: {:?}", e))?;
    if seq == 7 {
        b.read_lexicon(csv_b).map_err(|e| format!("lexicon: {:?}", e))?;
        b.resolve().map_err(|e| format!("resolve: {:?}", e))?;
        return b.compile(w).map_err(|e| format!("compile: {:?}", e));
    }
    // references to rows of the second part cannot be resolved yet: that error is not the point here
    let _ = b.resolve();
    b.read_lexicon(csv_b).map_err(|e| format!("lexicon: {:?}", e))?;
    if seq == 6 {
        b.resolve().map_err(|e| format!("resolve: {:?}", e))?;
    }
    b.compile(w).map_err(|e| format!("compile: {:?}", e))
}

#[derive(Clone, Debug, PartialEq)]
enum Expect {
    Either,
    /// the mutation makes the input invalid in a way the statement names
    MustReject(&'static str),
    /// the input is valid (boundary value inside the limits): rejecting it would be a wrong error
    MustAccept(&'static str),
}

struct Mutated {
    matrix: Vec<u8>,
    csv: Vec<u8>,
    what: String,
    expect: Expect,
    /// split references were disturbed: the units may not concatenate to the key any more
    splits_touched: bool,
    probe: &'static str,
    /// (key, n): if the input is accepted, exact lookup of `key` must return n entries
    homographs: Option<(String, usize)>,
}

fn mutate(rng: &mut Rng, m: &Matrix, lex: &Lexicon) -> Mutated {
    let mut rows: Vec<Vec<String>> = lex.entries.iter().map(|e| lex.row_fields(e, None)).collect();
    let mut matrix_text = m.to_text();
    let mut what;
    let mut expect = Expect::Either;
    let mut splits_touched = false;
    let n = rows.len();
    let r = rng.below(n);
    let indexed = lex.entries[r].indexed();
    let raw_bytes: Option<Vec<u8>>;
    raw_bytes = None;
    let mut csv_override: Option<Vec<u8>> = None;
    let mut homographs: Option<(String, usize)> = None;
    match rng.below(30) {
        0 => {
            let f = rng.below(rows[r].len());
            rows[r].remove(f);
            what = format!("row {}: field {} dropped", r, f);
            splits_touched = true;
        }
        1 => {
            let f = rng.below(rows[r].len());
            let v = rows[r][f].clone();
            rows[r].insert(f, v);
            what = format!("row {}: field {} duplicated", r, f);
            splits_touched = true;
        }
        2 => {
            let a = rng.below(rows[r].len());
            let b = rng.below(rows[r].len());
            rows[r].swap(a, b);
            what = format!("row {}: fields {} and {} swapped", r, a, b);
            splits_touched = true;
        }
        3 => {
            let k = rng.below(rows[r].len());
            rows[r].truncate(k);
            what = format!("row {}: truncated to {} fields", r, k);
            // an empty line is skipped by the CSV reader: later rows move up and numeric references point elsewhere
            splits_touched = true;
        }
        4 => {
            let f = 1 + rng.below(3);
            let v = rng.s(&["", "x", "1e3", " 5", "+5", "99999", "-99999", "32768", "-32769", "0x10", "１"]).to_string();
            what = format!("row {}: numeric field {} = {:?}", r, f, v);
            rows[r][f] = v;
        }
        5 if rng.chance(1, 3) => {
            // the largest valid ids (left id indexes the second dimension, right id the first)
            rows[r][1] = (m.nr as i64 - 1).to_string();
            rows[r][2] = (m.nl as i64 - 1).to_string();
            what = format!("row {}: left id {} / right id {} with a {}x{} matrix (largest valid ids)", r, rows[r][1], rows[r][2], m.nl, m.nr);
            expect = Expect::MustAccept("connection ids are the largest valid ones");
        }
        5 => {
            // connection id at / beyond the matrix size (left id indexes the second dimension)
            let beyond = rng.below(3) as i64;
            if rng.chance(1, 2) {
                rows[r][1] = (m.nr as i64 + beyond).to_string();
                what = format!("row {}: left id {} with a {}x{} matrix", r, rows[r][1], m.nl, m.nr);
            } else {
                rows[r][2] = (m.nl as i64 + beyond).to_string();
                what = format!("row {}: right id {} with a {}x{} matrix", r, rows[r][2], m.nl, m.nr);
            }
            expect = Expect::MustReject("connection id outside the matrix");
        }
        6 => {
            // negative ids
            if rng.chance(1, 2) {
                rows[r][1] = "-1".into();
                what = format!("row {}: left id -1 (not indexed)", r);
            } else {
                rows[r][2] = format!("-{}", 1 + rng.below(3));
                what = format!("row {}: right id {}", r, rows[r][2]);
                if indexed {
                    expect = Expect::MustReject("negative right id on an indexed entry");
                }
            }
        }
        7 => {
            let f = *rng.pick(&[13usize, 15, 16, 17]);
            let v = rng.s(&["9999", "99999999", "268435455", "268435456", "U0", "U1", "abc", "1/", "/1", "1//2", "-1", "0.5",
                "268435457", "536870912", "1073741824", "4026531840", "4294967294", "4294967295", "4294967296", "U268435456", "U4294967295"]).to_string();
            what = format!("row {}: reference field {} = {:?}", r, f, v);
            if v == "9999" || v == "99999999" || v == "268435455" || v == "U0" || v == "U1" || v.len() >= 9 {
                expect = Expect::MustReject("dangling word reference");
            }
            rows[r][f] = v;
            rows[r][14] = "C".into();
            splits_touched = true;
        }
        8 => {
            let f = *rng.pick(&[15usize, 16, 17, 18]);
            let item = if f == 18 { "000001" } else { "0" };
            let cnt = *rng.pick(&[127usize, 128, 129, 300]);
            rows[r][f] = vec![item; cnt].join("/");
            rows[r][14] = "C".into();
            what = format!("row {}: field {} with {} array items", r, f, cnt);
            if cnt > 127 {
                expect = Expect::MustReject("array longer than 127 items");
            }
            splits_touched = true;
        }
        9 if rng.chance(1, 3) => {
            // lengths around the 1-byte / 2-byte length prefix: valid, must compile, load and analyse
            let f = *rng.pick(&[4usize, 11, 12, 0]);
            let len = *rng.pick(&[126usize, 127, 128, 129]);
            rows[r][f] = "あ".repeat(if f == 0 { len / 3 } else { len });
            what = format!("row {}: field {} has {} characters", r, f, if f == 0 { len / 3 } else { len });
        }
        9 => {
            // the index key (field 0) stays short here: long keys are the region of known finding D24
            let f = *rng.pick(&[4usize, 5, 11, 12, 0]);
            let len = if f == 0 { *rng.pick(&[300usize, 1000, 40000, 70000]) } else { *rng.pick(&[32767usize, 32768, 40000, 70000]) };
            rows[r][f] = "a".repeat(len);
            what = format!("row {}: field {} is {} bytes long", r, f, len);
            if len > 32767 {
                expect = Expect::MustReject("string longer than the format limit");
            }
        }
        10 => {
            let f = *rng.pick(&[0usize, 4, 11, 12]);
            let v = rng.s(&["\\u12", "\\u{110000}", "\\u{d800}", "\\u{}", "\\uZZZZ", "\\u0041\\u", "a\\u{1F600}b"]).to_string();
            what = format!("row {}: field {} = {:?}", r, f, v);
            rows[r][f] = v;
        }
        11 => {
            // NUL through an escape or raw
            let v = if rng.chance(1, 2) { "a\\u0000b".to_string() } else { "a\u{0}b".to_string() };
            let f = *rng.pick(&[0usize, 4, 11]);
            what = format!("row {}: field {} contains NUL ({:?})", r, f, v);
            rows[r][f] = v;
        }
        12 => {
            rows[r][0] = String::new();
            what = format!("row {}: empty surface", r);
        }
        13 => {
            rows[r][14] = rng.s(&["A", "B", "C", "*", "BC", "D", "", "a"]).to_string();
            what = format!("row {}: splitting mode {:?}", r, rows[r][14]);
        }
        14 => {
            // inline split with unknown surface / missing fields
            let v = rng.s(&["無い,名詞,普通名詞,一般,*,*,*,ナイ", "あ,名詞", "あ,名詞,普通名詞,一般,*,*,*", ",,,,,,,"]).to_string();
            what = format!("row {}: inline split {:?}", r, v);
            rows[r][15] = v;
            rows[r][14] = "C".into();
            splits_touched = true;
        }
        15 => {
            matrix_text = String::new();
            what = "empty matrix text".into();
        }
        16 => {
            matrix_text = rng.s(&["\n\n  \n", "\n", " ", "\r\n\r\n"]).to_string();
            what = "blank matrix text".into();
        }
        17 => {
            matrix_text = rng.s(&["2", "a b\n", "-1 2\n", "2 -1\n", "0 0\n", "2 2 2\n0 0 0\n", "99999 1\n", "2\t2\n0\t0\t1\n"]).to_string();
            what = format!("matrix header {:?}", matrix_text);
        }
        18 => {
            let line = match rng.below(6) {
                0 => format!("{} 0 5", m.nl),
                1 => format!("0 {} 5", m.nr),
                2 => "-1 0 5".to_string(),
                3 => "0 -1 5".to_string(),
                4 => format!("{} {} 5", m.nl + 3, m.nr + 3),
                _ => format!("{} {} 5", m.nl as i64 - 1, m.nr as i64),
            };
            what = format!("matrix line {:?} in a {}x{} matrix", line, m.nl, m.nr);
            matrix_text.push_str(&line);
            matrix_text.push('\n');
            expect = Expect::MustReject("matrix coordinates outside the declared size");
        }
        19 => {
            let line = rng.s(&["0 0 99999", "0 0", "0", "0 0 1 7", "0 0 x", "0\t0\t3", "  0   0   4  "]).to_string();
            what = format!("matrix line {:?}", line);
            matrix_text.push_str(&line);
            matrix_text.push('\n');
        }
        20 => {
            matrix_text = matrix_text.replace('\n', "\r\n");
            what = "matrix with CRLF".into();
        }
        21 => {
            what = "lexicon with CRLF, blank lines and a BOM".into();
            let mut s = String::from("\u{feff}");
            for row in &rows {
                s.push_str(&join_csv(row));
                s.push_str("\r\n\r\n");
            }
            csv_override = Some(s.into_bytes());
        }
        22 => {
            what = "empty lexicon".into();
            csv_override = Some(Vec::new());
        }
        23 => {
            what = "lexicon without any indexed row".into();
            for row in rows.iter_mut() {
                row[1] = "-1".into();
            }
        }
        24 => {
            let len = rng.below(200);
            let bytes: Vec<u8> = (0..len).map(|_| rng.next() as u8).collect();
            what = format!("lexicon = {} random bytes", len);
            csv_override = Some(bytes);
        }
        25 => {
            let len = rng.below(100);
            let bytes: Vec<u8> = (0..len).map(|_| *rng.pick(&[b'0', b'1', b'2', b' ', b'\n', b'-', b'9', 0xff, 0x00, b'\t'])).collect();
            what = format!("matrix = {} random bytes", len);
            return Mutated { matrix: bytes, csv: lex.to_csv(None).into_bytes(), what, expect, splits_touched, probe: "", homographs: None };
        }
        26 => {
            // invalid UTF-8 inside a field
            what = format!("row {}: invalid UTF-8 in the surface", r);
            let mut out: Vec<u8> = Vec::new();
            for (i, row) in rows.iter().enumerate() {
                if i == r {
                    out.extend_from_slice(&[0xff, 0xfe, b'a']);
                    out.push(b',');
                    out.extend_from_slice(join_csv(&row[1..].to_vec()).as_bytes());
                } else {
                    out.extend_from_slice(join_csv(row).as_bytes());
                }
                out.push(b'\n');
            }
            csv_override = Some(out);
        }
        27 => {
            rows[r][0] = format!("\"{}", rows[r][0]);
            what = format!("row {}: unbalanced quote", r);
            let mut s = String::new();
            for row in &rows {
                s.push_str(&row.join(","));
                s.push('\n');
            }
            csv_override = Some(s.into_bytes());
        }
        28 if rng.chance(1, 2) => {
            // the only references written inline (surface,pos*6,reading) stand in the B-unit column of one row whose
            // splitting mode is B: still references that have to be resolved, or reported as unresolved
            let usable: Vec<usize> = (0..n).filter(|i| {
                let e = &lex.entries[*i];
                let bad = |s: &str| s.is_empty() || s.contains('/') || s.contains(',') || s.contains('"') || s.contains('\\') || s.contains('\n') || s.contains('\r');
                !bad(&e.key) && !bad(&e.reading) && e.pos.iter().all(|p| !bad(p)) && !e.escape
            }).collect();
            for row in rows.iter_mut() {
                for f in [15usize, 16, 17] {
                    if row[f].contains(',') {
                        row[f] = "*".into();
                    }
                }
            }
            if usable.len() >= 2 {
                let spec = |i: usize| { let e = &lex.entries[i]; format!("{},{},{}", e.key, e.pos.join(","), e.reading) };
                let (a, b) = (*rng.pick(&usable), *rng.pick(&usable));
                rows[r][14] = rng.s(&["B", "B", "BC"]).to_string();
                rows[r][16] = format!("{}/{}", spec(a), spec(b));
                what = format!("row {}: mode {}, B units written inline (the only inline references of the lexicon): {:?}", r, rows[r][14], rows[r][16]);
            } else {
                what = "inline references removed".into();
            }
            splits_touched = true;
        }
        28 => {
            // self reference / reference to a later row
            let f = *rng.pick(&[13usize, 17]);
            rows[r][f] = r.to_string();
            what = format!("row {}: field {} refers to itself", r, f);
        }
        _ => {
            // duplicate a whole row many times (homograph overflow of the word id table count byte)
            let cnt = *rng.pick(&[2usize, 127, 128, 255, 256, 300]);
            let row = rows[r].clone();
            for _ in 0..cnt {
                rows.push(row.clone());
            }
            what = format!("row {} repeated {} more times", r, cnt);
            if indexed {
                let key = lex.entries[r].key.clone();
                let same = lex.entries.iter().filter(|e| e.indexed() && e.key == key).count();
                homographs = Some((key, same + cnt));
            }
        }
    }
    let _ = raw_bytes;
    // a changed key of a row that other rows use as split unit: the units no longer cover the key (region of D9)
    if lex.entries.iter().any(|e| e.split_a.iter().chain(e.split_b.iter()).any(|u| u.row == r)) {
        splits_touched = true;
    }
    let csv = csv_override.unwrap_or_else(|| {
        let mut s = String::new();
        for row in &rows {
            s.push_str(&join_csv(row));
            s.push('\n');
        }
        s.into_bytes()
    });
    Mutated { matrix: matrix_text.into_bytes(), csv, what, expect, splits_touched, probe: "", homographs }
}

/// Loads an accepted dictionary and analyses texts made of its keys
fn arbiter(res: &ResDir, bytes: &[u8], users: &[Vec<u8>], keys: &[String], splits_touched: bool, rep: &mut Report) -> Result<(), (String, String, String)> {
    let cfg_json = json!({"characterDefinitionFile": "char.def",
        "oovProviderPlugin": [env::simple_oov_allow(&pos(["補助記号", "一般", "*", "*", "*", "*"]), 0, 0, 20000)]});
    let cfg = env::config(&cfg_json, res);
    let before = sudachi::verif::counters();
    let dict = match guard(|| env::load(&cfg, bytes, users, Place::Owned)) {
        Ok(Ok(d)) => d,
        Ok(Err(e)) => return Err(("emitted_dictionary_does_not_load".into(), "from_cfg_storage".into(), clip(&format!("{:?}", e), 200))),
        Err(p) => return Err(("emitted_dictionary_does_not_load".into(), p.site, p.msg)),
    };
    rep.count("accepted_dictionaries_loaded", 1);
    let modes: &[Mode] = if splits_touched { &[Mode::C] } else { &MODES };
    for mode in modes {
        let mut t = Tok::new(&dict, *mode);
        for k in keys.iter().take(12) {
            if k.is_empty() || k.len() > 2000 {
                continue;
            }
          for text in [k.clone(), format!("{}。{}{}", k, k, k)] {
            match guard(|| t.run(&text)) {
                Ok(Ok(())) => {}
                Ok(Err(e)) => return Err(("emitted_dictionary_fails_analysis".into(), "do_tokenize".into(), format!("{:?} for {:?}", e, clip(&text, 40)))),
                Err(p) => return Err(("emitted_dictionary_fails_analysis".into(), p.site, format!("{} (text {:?}, mode {:?})", p.msg, clip(&text, 40), mode))),
            }
            match guard(|| observe(&t.list)) {
                Ok(o) => {
                    if let Some(m) = check_partition(&text, &o, 0, text.len()) {
                        return Err(("emitted_dictionary_fails_analysis".into(), "partition".into(), m));
                    }
                }
                Err(p) => return Err(("emitted_dictionary_fails_analysis".into(), p.site, format!("accessor: {}", p.msg))),
            }
            rep.count("analyses_with_accepted_dictionaries", 1);
          }
        }
    }
    let after = sudachi::verif::counters();
    if after[1] != before[1] || after[3] != before[3] || after[5] != before[5] {
        let what = sudachi::verif::take_first_oob().unwrap_or_default();
        return Err(("emitted_dictionary_fails_analysis".into(), "hooks H2/H3".into(), what));
    }
    Ok(())
}

fn run_case(mu: &Mutated, keys: &[String], res: &ResDir, rep: &mut Report, scen: &dyn Fn() -> Value) -> bool {
    rep.eval();
    let mut out = Vec::new();
    let r = guard(|| compile_to(&mu.matrix, &mu.csv, &mut out));
    match r {
        Err(p) => {
            rep.violation("compile_panic", &p.site, &format!("{}: {}", mu.what, p.msg), mu.probe, scen());
            false
        }
        Ok(Err(e)) => {
            rep.count("inputs_rejected_with_error", 1);
            if let Expect::MustAccept(why) = &mu.expect {
                rep.violation("valid_input_rejected", "DictBuilder::compile", &format!("{} ({}) but compilation fails: {}", mu.what, why, clip(&e, 200)), mu.probe, scen());
                return false;
            }
            // other call sequences on the same rejected input must also end in an error value
            for seq in [1u8, 2, 4] {
                let mut sink = Vec::new();
                let names = ["", "error of resolve() ignored, then compile()", "compile() without resolve()", "", "error of read_conn() ignored"];
                match guard(|| compile_seq(&mu.matrix, &mu.csv, &mut sink, seq)) {
                    Err(p) => {
                        rep.violation("compile_panic", &p.site, &format!("{} with call sequence {} ({}): {}", mu.what, seq, names[seq as usize], p.msg), mu.probe, scen());
                        return false;
                    }
                    Ok(Ok(())) if seq == 4 && !mu.splits_touched => {
                        // whatever was kept of the matrix: a dictionary reported as compiled must be valid
                        rep.count("alternative_call_sequences", 1);
                        if let Err((kind, site, msg)) = arbiter(res, &sink, &[], keys, false, rep) {
                            rep.violation(&kind, &site, &format!("{}; the error of read_conn() is ignored and compile() reports success: {}", mu.what, msg), mu.probe, scen());
                            return false;
                        }
                    }
                    Ok(_) => rep.count("alternative_call_sequences", 1),
                }
            }
            true
        }
        Ok(Ok(())) => {
            rep.count("inputs_accepted", 1);
            if let Expect::MustReject(why) = &mu.expect {
                rep.violation("invalid_input_accepted", "DictBuilder::compile", &format!("{} ({}) but compilation reports success", mu.what, why), mu.probe, scen());
                return false;
            }
            match arbiter(res, &out, &[], keys, mu.splits_touched, rep) {
                Ok(()) => {
                    // every one of the repeated rows is reachable through the index
                    if let Some((key, n)) = &mu.homographs {
                        let cfg_json = json!({"characterDefinitionFile": "char.def",
                            "oovProviderPlugin": [env::simple_oov_allow(&pos(["補助記号", "一般", "*", "*", "*", "*"]), 0, 0, 20000)]});
                        let cfg = env::config(&cfg_json, res);
                        if let Ok(Ok(d)) = guard(|| env::load(&cfg, &out, &[], Place::Owned)) {
                            let got = guard(|| d.lexicon().lookup(key.as_bytes(), 0).filter(|e| e.end == key.len()).count());
                            rep.count("homograph_counts_checked", 1);
                            if let Ok(g) = got {
                                if g != *n {
                                    rep.violation("emitted_dictionary_fails_analysis", "LexiconSet::lookup", &format!("{}: compilation reports success but only {} of the {} entries with key {:?} can be looked up", mu.what, g, n, clip(key, 20)), mu.probe, scen());
                                    return false;
                                }
                            }
                        }
                    }
                    true
                }
                Err((kind, site, msg)) => {
                    rep.violation(&kind, &site, &format!("{}: {}", mu.what, msg), mu.probe, scen());
                    false
                }
            }
        }
    }
}

pub fn run(ctx: &Ctx, rep: &mut Report) {
    let res = ResDir::standard();
    if ctx.stage == "d24probe" {
        // labelled probe of known finding D24, alone in its process: a key of the maximal legal
        // length makes the recursive trie builder overflow the stack (abort, not a panic)
        rep.progress_idx(u64::MAX - 24, "probe D24");
        let pool = dictgen::pos_pool();
        let m = Matrix::new(1, 1);
        let mut lex = Lexicon::default();
        lex.entries.push(Entry::simple("あ", 0, 0, 1, &pool[0]));
        lex.entries.push(Entry::simple(&"a".repeat(32767), 0, 0, 1, &pool[1]));
        rep.eval();
        let mut out = Vec::new();
        let r = guard(|| compile_to(m.to_text().as_bytes(), lex.to_csv(None).as_bytes(), &mut out));
        rep.count("probe_scenarios", 1);
        if let Err(p) = r {
            rep.violation("compile_panic", &p.site, &p.msg, "D24", json!({"probe": "D24"}));
        }
        rep.nontrivial(1);
        rep.nontrivial(2);
        return;
    }
    let n_worlds = ctx.n(480, 24000);
    for wi in ctx.indices(n_worlds) {
        if ctx.out_of_time() {
            rep.notes.push(format!("stopped at world {} (time budget)", wi));
            break;
        }
        let mut rng = Rng::derive(ctx.seed, 0xC06, wi);
        rep.progress_idx(wi, "C06 dictionary");
        let dopts = DictOpts { max_entries: 14, cost_extremes: true, ..DictOpts::default() };
        let matrix = dictgen::gen_matrix(&mut rng, &dopts);
        let lex = dictgen::gen_system(&mut rng, &dopts, &matrix);
        let keys: Vec<String> = lex.entries.iter().filter(|e| e.indexed()).map(|e| e.key.clone()).collect();
        let csv = lex.to_csv(None);
        let mtext = matrix.to_text();
        // the unmutated input must be accepted and valid
        let base = Mutated { matrix: mtext.clone().into_bytes(), csv: csv.clone().into_bytes(), what: "unmodified input".into(), expect: Expect::Either, splits_touched: false, probe: "", homographs: None };
        let scen0 = || json!({"world_index": wi, "mutation": "none", "matrix": mtext, "lexicon_csv": csv});
        run_case(&base, &keys, &res, rep, &scen0);
        // the same lexicon without any connection matrix: an error value, or a valid dictionary
        {
            rep.eval();
            let mut sink = Vec::new();
            match guard(|| compile_seq(mtext.as_bytes(), csv.as_bytes(), &mut sink, 3)) {
                Err(p) => rep.violation("compile_panic", &p.site, &format!("compile() of a system dictionary without read_conn(): {}", p.msg), "", scen0()),
                Ok(Err(_)) => rep.count("compilations_without_matrix_rejected", 1),
                Ok(Ok(())) => {
                    rep.count("compilations_without_matrix_accepted", 1);
                    if let Err((kind, site, msg)) = arbiter(&res, &sink, &[], &keys, false, rep) {
                        rep.violation(&kind, &site, &format!("compile() of a system dictionary without read_conn() reports success: {}", msg), "", scen0());
                    }
                }
            }
        }

        // the lexicon offered in two parts, with resolve() in between; a second, broken matrix
        if lex.entries.len() >= 2 {
            let cut = 1 + rng.below(lex.entries.len() - 1);
            let part = |r: std::ops::Range<usize>| lex.entries[r].iter().map(|e| lex.row_csv(e, None) + "\n").collect::<String>();
            let (ca, cb) = (part(0..cut), part(cut..lex.entries.len()));
            for seq in [5u8, 6, 7, 8, 9, 10, 11] {
                rep.eval();
                let mut sink = Vec::new();
                let what = match seq {
                    5 => "read_lexicon(part 1), resolve(), read_lexicon(part 2), compile()",
                    6 => "read_lexicon(part 1), resolve(), read_lexicon(part 2), resolve(), compile()",
                    8 => "read_conn(a larger 9x11 matrix), read_conn(matrix), read_lexicon, resolve(), compile()",
                    9 => "read_lexicon(part 1), resolve(), compile() (result dropped), read_lexicon(part 2), resolve(), compile()",
                    10 => "read_lexicon, resolve(), compile() into sinks that fail at three offsets, compile() into a sound sink",
                    11 => "read_lexicon(part 1), resolve(), read_lexicon(part 2 + a broken last line; error ignored), compile()",
                    _ => "read_conn(matrix), read_conn(smaller matrix whose text breaks off; error ignored), read_lexicon, resolve(), compile()",
                };
                let scen = || json!({"world_index": wi, "call_sequence": what, "matrix": mtext, "lexicon_part_1": ca, "lexicon_part_2": cb});
                match guard(|| compile_multi(mtext.as_bytes(), ca.as_bytes(), cb.as_bytes(), &mut sink, seq)) {
                    Err(p) => rep.violation("compile_panic", &p.site, &format!("call sequence {}: {}", what, p.msg), "", scen()),
                    Ok(Err(e)) => {
                        rep.count("longer_call_sequences_rejected", 1);
                        if seq == 6 || seq == 8 || seq == 9 || seq == 10 {
                            rep.violation("valid_input_rejected", "DictBuilder::compile", &format!("call sequence {} fails although the same rows compile in one piece: {}", what, clip(&e, 200)), "", scen());
                        }
                    }
                    Ok(Ok(())) => {
                        rep.count("longer_call_sequences_accepted", 1);
                        if seq == 8 || seq == 9 || seq == 10 {
                            // nothing of the first matrix may survive: same bytes as the plain compilation
                            let mut plain = Vec::new();
                            if compile_to(mtext.as_bytes(), csv.as_bytes(), &mut plain).is_ok() && plain != sink {
                                rep.violation("emitted_dictionary_does_not_load", "DictBuilder::compile", &format!("call sequence {} writes {} bytes, the plain sequence {}", what, sink.len(), plain.len()), "", scen());
                                continue;
                            }
                        }
                        if let Err((kind, site, msg)) = arbiter(&res, &sink, &[], &keys, false, rep) {
                            rep.violation(&kind, &site, &format!("call sequence {} reports success: {}", what, msg), "", scen());
                        }
                    }
                }
            }
        }

        // (a) mutated inputs
        for mi in 0..10 {
            let mu = mutate(&mut rng, &matrix, &lex);
            let scen = || json!({"world_index": wi, "mutation_index": mi, "mutation": mu.what,
                "matrix": clip(&String::from_utf8_lossy(&mu.matrix), 1500), "lexicon_csv": clip(&String::from_utf8_lossy(&mu.csv), 4000)});
            if run_case(&mu, &keys, &res, rep, &scen) {
                rep.nontrivial(fnv(format!("{}|{}|{}", wi, mi, mu.what).as_bytes()));
            }
            rep.count("mutated_inputs", 1);
        }

        // (a') user dictionaries compiled over this system dictionary (as the CLI does)
        if wi % 2 == 1 {
            user_part(&mut rng, wi, &matrix, &lex, &csv, &mtext, &res, rep);
        }

        // (a'') descriptions around the 256-byte limit of the header field, measured in bytes, characters and UTF-16 units
        if wi % 4 == 2 {
            let descs: Vec<String> = vec![
                String::new(), "a".repeat(255), "a".repeat(256), "a".repeat(257), "京".repeat(85), format!("{}a", "京".repeat(85)),
                "京".repeat(86), "京".repeat(100), "京".repeat(256), "𠮷".repeat(64), "𠮷".repeat(65), "𠮷".repeat(128), format!("{}é", "a".repeat(255)),
                "a".repeat(1000),
            ];
            for _ in 0..4 {
                let d = rng.pick(&descs).clone();
                rep.eval();
                let mut out = Vec::new();
                let r = guard(|| {
                    let mut b = DictBuilder::new_system();
                    b.set_compile_time(std::time::UNIX_EPOCH + std::time::Duration::from_secs(env::FIXED_TIME_SECS));
                    b.set_description(d.clone());
                    b.read_conn(mtext.as_bytes()).map_err(|e| format!("conn: {:?}", e))?;
                    b.read_lexicon(csv.as_bytes()).map_err(|e| format!("lexicon: {:?}", e))?;
                    b.resolve().map_err(|e| format!("resolve: {:?}", e))?;
                    b.compile(&mut out).map_err(|e| format!("compile: {:?}", e))
                });
                let what = format!("description of {} bytes / {} characters", d.len(), d.chars().count());
                let scen = || json!({"world_index": wi, "description": d, "matrix": mtext, "lexicon_csv": csv});
                rep.count("descriptions_tried", 1);
                match r {
                    Err(p) => rep.violation("compile_panic", &p.site, &format!("{}: {}", what, p.msg), "", scen()),
                    Ok(Err(_)) => {
                        rep.count("inputs_rejected_with_error", 1);
                        if d.len() <= 256 {
                            rep.violation("valid_input_rejected", "DictBuilder::compile", &format!("{} (inside the 256-byte field) but compilation fails", what), "", scen());
                        }
                    }
                    Ok(Ok(())) => {
                        rep.count("inputs_accepted", 1);
                        match arbiter(&res, &out, &[], &keys, false, rep) {
                            Ok(()) => {
                                // the stored description is what was given
                                let stored = sudachi::dic::header::Header::parse(&out).map(|h| h.description).unwrap_or_default();
                                if stored != d {
                                    rep.violation("stored_string_differs", "Header::parse", &format!("{}: the stored description reads back as {:?}", what, clip(&stored, 60)), "", scen());
                                }
                            }
                            Err((kind, site, msg)) => rep.violation(&kind, &site, &format!("{}: {}", what, msg), "", scen()),
                        }
                    }
                }
            }
        }

        // (b') the same question for the builders behind the Python entry points and the command line: the output file is
        // cut off after L bytes by a file size limit; success with a shorter file is a sink failure reported as success
        if wi % 16 == 6 && ctx.stage == "main" {
            let pypkg = std::env::var("VH_PYPKG").unwrap_or_default();
            let cli = std::env::var("VH_CLI").unwrap_or_default();
            let script = std::env::var("VH_PYDRIVER").map(|d| d.replace("drive.py", "sink.py")).unwrap_or_else(|_| "/verif/py/sink.py".to_string());
            if !pypkg.is_empty() && std::path::Path::new(&pypkg).exists() {
                let dir = ResDir::new();
                dir.write("matrix.def", &mtext);
                dir.write("lex.csv", &csv);
                // a small user lexicon over this system dictionary
                let pool = dictgen::pos_pool();
                let mut ucsv = String::new();
                for k in 0..6 {
                    let e = Entry::simple(&format!("ゆ{}", "ざ".repeat(k + 1)), 0, 0, 100, &pool[0]);
                    let mut l = Lexicon::default();
                    l.user = true;
                    ucsv.push_str(&l.row_csv(&e, Some(&lex)));
                    ucsv.push('\n');
                }
                dir.write("user.csv", &ucsv);
                rep.eval();
                let o = std::process::Command::new("python3").arg(&script).arg(&dir.path).arg(&pypkg).arg(&cli).arg(format!("{}", ctx.seed.wrapping_add(wi))).output();
                match o {
                    Ok(o) if o.status.success() => {
                        if let Ok(v) = serde_json::from_str::<Value>(String::from_utf8_lossy(&o.stdout).trim()) {
                            for k in ["py_sink_fault_points", "py_user_sink_fault_points", "cli_sink_fault_points"] {
                                rep.count(k, v[k].as_u64().unwrap_or(0));
                            }
                            if let Some(ms) = v["mismatches"].as_array() {
                                for m in ms {
                                    rep.violation(m["kind"].as_str().unwrap_or("sink_failure_reported_as_success"), m["site"].as_str().unwrap_or("python"), m["msg"].as_str().unwrap_or(""), "",
                                        json!({"world_index": wi, "matrix": mtext, "lexicon_csv": csv, "user_csv": ucsv}));
                                }
                            }
                            if let Some(n) = v.get("note") {
                                rep.notes.push(format!("sink.py: {}", n));
                            }
                        }
                    }
                    Ok(o) => rep.notes.push(format!("sink.py failed: {}", clip(&String::from_utf8_lossy(&o.stderr), 300))),
                    Err(e) => rep.notes.push(format!("python3 could not be started: {}", e)),
                }
            } else {
                rep.count("python_package_not_available", 1);
            }
        }

        // (b) sink faults: every offset for small dictionaries, sampled for larger ones
        if wi % 4 == 0 {
            let mut full = Vec::new();
            if compile_to(mtext.as_bytes(), csv.as_bytes(), &mut full).is_ok() {
                let len = full.len();
                let offsets: Vec<usize> = if len <= 4096 {
                    rep.count("dictionaries_with_every_failure_offset_enumerated", 1);
                    (0..len).collect()
                } else {
                    let mut v: Vec<usize> = (0..300).map(|_| rng.below(len)).collect();
                    v.extend([0, 1, len - 1, len - 2, len / 2]);
                    v
                };
                for k in offsets {
                    for short in [false, true] {
                        rep.eval();
                        let mut sink = FaultSink { limit: k, written: 0, short, errors: 0 };
                        let r = guard(|| compile_to(mtext.as_bytes(), csv.as_bytes(), &mut sink));
                        rep.count("sink_fault_points", 1);
                        let scen = || json!({"world_index": wi, "sink_fails_after_bytes": k, "short_write_before_failing": short, "full_length": len, "matrix": mtext, "lexicon_csv": csv});
                        match r {
                            Err(p) => rep.violation("compile_panic", &p.site, &format!("sink failing after {} bytes: {}", k, p.msg), "", scen()),
                            Ok(Ok(())) => rep.violation("sink_failure_reported_as_success", "DictBuilder::compile", &format!("the sink accepted only {} of {} bytes ({}) but compile returned Ok", sink.written, len, if short { "short write, then error" } else { "error" }), "", scen()),
                            Ok(Err(_)) => {}
                        }
                    }
                }
                rep.nontrivial(fnv(format!("sink|{}", wi).as_bytes()));
                if rep.want_sample() {
                    rep.sample(json!({"dictionary_bytes": len, "failure_offsets_tried": "every offset, with and without a preceding short write", "lexicon_rows": lex.entries.len()}));
                }
            }
        }
    }
    if ctx.shard == 0 && ctx.only.is_none() {
        probes(&res, rep);
    }
}

fn user_part(rng: &mut Rng, wi: u64, matrix: &Matrix, sys: &Lexicon, sys_csv: &str, mtext: &str, res: &ResDir, rep: &mut Report) {
    let pool = dictgen::pos_pool();
    let sys_bytes = match env::compile_system(sys_csv.as_bytes(), mtext.as_bytes()) {
        Ok(b) => b,
        Err(_) => return,
    };
    let plain_cfg = env::config(&env::minimal_cfg(&pool[0]), res);
    let plain = match guard(|| env::load(&plain_cfg, &sys_bytes, &[], Place::Owned)) {
        Ok(Ok(d)) => d,
        _ => return,
    };
    let dopts = DictOpts { max_entries: 8, ..DictOpts::default() };
    let user = dictgen::gen_user(rng, &dopts, matrix, sys, 0);
    for case in 0..6 {
        let mut rows: Vec<Vec<String>> = user.entries.iter().map(|e| user.row_fields(e, Some(sys))).collect();
        let r = rng.below(rows.len());
        let (what, expect): (String, Expect) = match case {
            0 => ("unmodified user dictionary".to_string(), Expect::MustAccept("generated valid")),
            1 => {
                rows[r][1] = (matrix.nr as i64 - 1).to_string();
                rows[r][2] = (matrix.nl as i64 - 1).to_string();
                (format!("user row {}: largest valid ids {} / {} for a {}x{} matrix", r, rows[r][1], rows[r][2], matrix.nl, matrix.nr), Expect::MustAccept("largest valid connection ids"))
            }
            2 => {
                rows[r][1] = (matrix.nr as i64 + rng.below(2) as i64).to_string();
                (format!("user row {}: left id {} for a {}x{} matrix", r, rows[r][1], matrix.nl, matrix.nr), Expect::MustReject("left id outside the matrix"))
            }
            3 => {
                rows[r][2] = (matrix.nl as i64 + rng.below(2) as i64).to_string();
                (format!("user row {}: right id {} for a {}x{} matrix", r, rows[r][2], matrix.nl, matrix.nr), Expect::MustReject("right id outside the matrix"))
            }
            4 => {
                let f = *rng.pick(&[15usize, 16, 17]);
                rows[r][f] = format!("U{}", rows.len() + rng.below(3));
                rows[r][14] = "C".into();
                (format!("user row {}: reference field {} = {}", r, f, rows[r][f]), Expect::MustReject("dangling reference into the user dictionary"))
            }
            _ => {
                let f = *rng.pick(&[15usize, 16, 17]);
                rows[r][f] = format!("{}", sys.entries.len() + rng.below(3));
                rows[r][14] = "C".into();
                (format!("user row {}: reference field {} = {} (system dictionary has {} rows)", r, f, rows[r][f], sys.entries.len()), Expect::MustReject("dangling reference into the system dictionary"))
            }
        };
        let mut csv = String::new();
        for row in &rows {
            csv.push_str(&join_csv(row));
            csv.push('\n');
        }
        rep.eval();
        rep.count("user_dictionary_inputs", 1);
        let scen = || json!({"world_index": wi, "user_case": what, "matrix": mtext, "system_csv": clip(sys_csv, 3000), "user_csv": csv});
        match guard(|| env::compile_user(&plain, csv.as_bytes())) {
            Err(p) => rep.violation("compile_panic", &p.site, &format!("{}: {}", what, p.msg), "", scen()),
            Ok(Err(e)) => {
                if let Expect::MustAccept(why) = &expect {
                    rep.violation("valid_input_rejected", "DictBuilder::compile(user)", &format!("{} ({}) but compilation fails: {}", what, why, clip(&format!("{:?}", e), 200)), "", scen());
                }
            }
            Ok(Ok(ub)) => {
                if let Expect::MustReject(why) = &expect {
                    rep.violation("invalid_input_accepted", "DictBuilder::compile(user)", &format!("{} ({}) but compilation reports success", what, why), "", scen());
                    continue;
                }
                let keys: Vec<String> = user.entries.iter().map(|e| e.key.clone()).collect();
                if let Err((kind, site, msg)) = arbiter(res, &sys_bytes, &[ub], &keys, false, rep) {
                    rep.violation(&kind, &site, &format!("{}: {}", what, msg), "", scen());
                } else {
                    rep.nontrivial(fnv(format!("user|{}|{}", wi, case).as_bytes()));
                }
            }
        }
    }
}

fn probes(res: &ResDir, rep: &mut Report) {
    let pool = dictgen::pos_pool();
    // D9: split units that do not concatenate to the key
    rep.progress_idx(u64::MAX - 9, "probe D9");
    let m = Matrix::new(1, 1);
    let mut lex = Lexicon::default();
    for (i, k) in ["abc", "d", "x"].iter().enumerate() {
        lex.entries.push(Entry::simple(k, 0, 0, 100, &pool[i]));
    }
    let mut e = Entry::simple("ab", 0, 0, -500, &pool[0]);
    e.mode = "C";
    e.split_a = vec![Ref { dic: 0, row: 0, inline: false }, Ref { dic: 0, row: 1, inline: false }];
    lex.entries.push(e);
    let mu = Mutated { matrix: m.to_text().into_bytes(), csv: lex.to_csv(None).into_bytes(), what: "word 'ab' declaring the A split 'abc/d'".into(), expect: Expect::Either, splits_touched: false, probe: "D9", homographs: None };
    let scen = || json!({"probe": "D9", "lexicon_csv": String::from_utf8_lossy(&mu.csv), "matrix": String::from_utf8_lossy(&mu.matrix)});
    let before = rep.violation_count;
    run_case(&mu, &["ab".to_string()], res, rep, &scen);
    if std::env::var("VH_DEBUG").is_ok() {
        let mut out = Vec::new();
        eprintln!("D9 probe: violations {} -> {}, compile {:?}\n{}", before, rep.violation_count, compile_to(&mu.matrix, &mu.csv, &mut out), String::from_utf8_lossy(&mu.csv));
    }
    rep.count("probe_scenarios", 1);

    // D18: dictionary-form references of user dictionaries
    rep.progress_idx(u64::MAX - 18, "probe D18");
    let mut sys = Lexicon::default();
    for (i, k) in ["東京", "都", "に"].iter().enumerate() {
        sys.entries.push(Entry::simple(k, 0, 0, 100, &pool[i]));
    }
    let r = guard(|| -> Result<(), String> {
        let sys_bytes = env::compile_system(sys.to_csv(None).as_bytes(), m.to_text().as_bytes()).map_err(|e| format!("{:?}", e))?;
        let plain_cfg = env::config(&env::minimal_cfg(&pool[0]), res);
        let plain = env::load(&plain_cfg, &sys_bytes, &[], Place::Owned).map_err(|e| format!("{:?}", e))?;
        let mut user = Lexicon { entries: vec![], user: true };
        let mut e0 = Entry::simple("行っ", 0, 0, -100, &pool[0]);
        e0.dic_form = Some(Ref { dic: 1, row: 1, inline: false });
        user.entries.push(e0);
        user.entries.push(Entry::simple("行く", 0, 0, -100, &pool[0]));
        let ub = env::compile_user(&plain, user.to_csv(Some(&sys)).as_bytes()).map_err(|e| format!("user dictionary rejected: {:?}", e))?;
        let dict = env::load(&plain_cfg, &sys_bytes, &[ub], Place::Owned).map_err(|e| format!("{:?}", e))?;
        let mut t = Tok::new(&dict, Mode::C);
        t.run("行っ").map_err(|e| format!("{:?}", e))?;
        let o = observe(&t.list);
        if o.len() == 1 && o[0].dict_form == "行く" {
            Ok(())
        } else {
            Err(format!("dictionary form is {:?}", o.iter().map(|x| x.dict_form.clone()).collect::<Vec<_>>()))
        }
    });
    rep.eval();
    rep.count("probe_scenarios", 1);
    let scen = json!({"probe": "D18", "user_csv": "行っ,0,0,-100,行っ,名詞,普通名詞,一般,*,*,*,行っ,行っ,U1,*,*,*,*,*  +  行く,..."});
    match r {
        Ok(Ok(())) => {}
        Ok(Err(e)) if e.starts_with("user dictionary rejected") => {}
        Ok(Err(e)) => rep.violation("emitted_dictionary_fails_analysis", "user dictionary dic_form", &e, "D18", scen),
        Err(p) => rep.violation("emitted_dictionary_fails_analysis", &p.site, &format!("user dictionary row with dic_form U1: {}", p.msg), "D18", scen),
    }
}
