//! C17 — character classes of a code point are the union of all definition lines covering it.
//! Exhaustive over all Unicode scalar values for every generated definition.

use serde_json::json;
use sudachi::dic::category_type::CategoryType;
use sudachi::dic::character_category::CharacterCategory;

use crate::report::{guard, Report};
use crate::rng::{fnv, Rng};
use crate::Ctx;

pub const CLASSES: &[(&str, u32)] = &[
    ("DEFAULT", 1 << 0),
    ("SPACE", 1 << 1),
    ("KANJI", 1 << 2),
    ("SYMBOL", 1 << 3),
    ("NUMERIC", 1 << 4),
    ("ALPHA", 1 << 5),
    ("HIRAGANA", 1 << 6),
    ("KATAKANA", 1 << 7),
    ("KANJINUMERIC", 1 << 8),
    ("GREEK", 1 << 9),
    ("CYRILLIC", 1 << 10),
    ("USER1", 1 << 11),
    ("USER2", 1 << 12),
    ("USER3", 1 << 13),
    ("USER4", 1 << 14),
    ("NOOOVBOW", 1 << 30),
    ("NOOOVBOW2", 1 << 31),
    ("ALL", 0x3fff_ffff),
];

#[derive(Clone, Debug)]
pub struct Line {
    pub lo: u32,
    pub hi: u32,
    pub classes: Vec<usize>,
}

impl Line {
    pub fn bits(&self) -> u32 {
        self.classes.iter().fold(0, |a, c| a | CLASSES[*c].1)
    }
}

fn valid_begin(c: u32) -> bool {
    char::from_u32(c).is_some()
}

fn valid_end(c: u32) -> bool {
    // the reader stores hi+1 and requires it to be a scalar value
    char::from_u32(c + 1).is_some()
}

const ANCHORS: &[u32] = &[
    0x0, 0x1, 0x20, 0x30, 0x39, 0x41, 0x7f, 0x80, 0xff, 0x3000, 0x3041, 0x309f, 0x30a0, 0x30ff, 0x4e00, 0x9fff, 0xd7fe,
    0xd7ff, 0xe000, 0xe001, 0xfffe, 0xffff, 0x10000, 0x1f44d, 0x1f3fb, 0x20bb7, 0x10fffe, 0x10ffff,
];

fn gen_point(rng: &mut Rng, prev: &[Line]) -> u32 {
    loop {
        let c = match rng.below(6) {
            0 => *rng.pick(ANCHORS),
            1 if !prev.is_empty() => {
                // neighbours of existing range ends
                let l = rng.pick(prev);
                let base = if rng.chance(1, 2) { l.lo } else { l.hi };
                (base as i64 + rng.range(-2, 2)).clamp(0, 0x10ffff) as u32
            }
            2 => rng.below(0x300) as u32,
            3 => 0x3000 + rng.below(0x200) as u32,
            4 => rng.below(0x110000) as u32,
            _ => 0xd700 + rng.below(0x1000) as u32,
        };
        if char::from_u32(c).is_some() {
            return c;
        }
    }
}

pub fn gen_lines(rng: &mut Rng, max_lines: usize) -> Vec<Line> {
    let n = rng.below(max_lines + 1);
    let mut lines: Vec<Line> = Vec::new();
    for _ in 0..n {
        let (lo, hi) = loop {
            let a = gen_point(rng, &lines);
            let b = match rng.below(5) {
                0 => a,
                1 => (a + rng.below(4) as u32).min(0x10fffe),
                2 if !lines.is_empty() => rng.pick(&lines).hi,
                _ => gen_point(rng, &lines),
            };
            let (lo, hi) = if a <= b { (a, b) } else { (b, a) };
            if valid_begin(lo) && valid_end(hi) {
                break (lo, hi);
            }
            // a range that ends with the last code point before the surrogate gap / of the code space: the reader stores
            // end+1, which is not a scalar value, and refuses the file; should it ever load, everything below applies
            if rng.chance(1, 4) && valid_begin(lo) && (hi == 0xd7ff || hi == 0x10ffff) {
                break (lo, hi);
            }
        };
        let mut classes = vec![];
        for _ in 0..1 + rng.below(3) {
            // ALL is rare: it makes everything overlap
            let c = if rng.chance(1, 12) { CLASSES.len() - 1 } else { rng.below(CLASSES.len() - 1) };
            if !classes.contains(&c) {
                classes.push(c);
            }
        }
        if rng.chance(1, 40) {
            // all classes of this line are commented out
            classes.clear();
        }
        if rng.chance(1, 6) && !lines.is_empty() {
            // exact duplicate range with other classes
            let l = rng.pick(&lines).clone();
            lines.push(Line { lo: l.lo, hi: l.hi, classes });
        } else {
            lines.push(Line { lo, hi, classes });
        }
    }
    lines
}

pub fn render(rng: &mut Rng, lines: &[Line]) -> String {
    let mut s = String::from("# generated\n\nDEFAULT 0 1 0\n");
    for l in lines {
        let hex = |rng: &mut Rng, v: u32| match rng.below(3) {
            0 => format!("0x{:04X}", v),
            1 => format!("0x{:x}", v),
            _ => format!("0x{:06x}", v),
        };
        // (a line whose classes are all commented out contributes nothing)
        let classless = l.classes.is_empty();
        let range = if l.lo == l.hi && rng.chance(2, 3) {
            hex(rng, l.lo)
        } else {
            // (the end of a range may be written without the 0x prefix)
            if rng.chance(1, 6) {
                format!("{}..{:04X}", hex(rng, l.lo), l.hi)
            } else {
                format!("{}..{}", hex(rng, l.lo), hex(rng, l.hi))
            }
        };
        let sep = if rng.chance(1, 3) { "\t" } else { " " };
        let classes: Vec<&str> = l.classes.iter().map(|c| CLASSES[*c].0).collect();
        if classless {
            s.push_str(&format!("{}{}# KANJI ALPHA\n", range, sep));
            continue;
        }
        s.push_str(&format!("{}{}{}", range, sep, classes.join(sep)));
        if rng.chance(1, 4) {
            s.push_str(" # comment KANJI");
        }
        s.push('\n');
    }
    // the last line need not end with a line break; line breaks may be CR LF
    if rng.chance(1, 4) {
        s.pop();
    }
    if rng.chance(1, 8) {
        s = s.replace('\n', "\r\n");
    }
    s
}

pub fn expected_bits(lines: &[Line], c: u32) -> u32 {
    let mut bits = 0u32;
    for l in lines {
        if l.lo <= c && c <= l.hi {
            bits |= l.bits();
        }
    }
    if bits == 0 {
        1
    } else {
        bits
    }
}

/// Sweeps every scalar value. Returns (first mismatch, #points with >=2 covering lines)
fn sweep(cc: &CharacterCategory, lines: &[Line]) -> (Option<(u32, u32, u32)>, u64, u64) {
    let mut multi = 0u64;
    let mut n = 0u64;
    // bits per line precomputed
    let lb: Vec<(u32, u32, u32)> = lines.iter().map(|l| (l.lo, l.hi, l.bits())).collect();
    for c in (0..0xd800u32).chain(0xe000..0x110000) {
        let ch = unsafe { char::from_u32_unchecked(c) };
        let mut bits = 0u32;
        let mut cover = 0;
        for (lo, hi, b) in &lb {
            if *lo <= c && c <= *hi {
                bits |= b;
                cover += 1;
            }
        }
        if bits == 0 {
            bits = 1;
        }
        if cover >= 2 {
            multi += 1;
        }
        n += 1;
        let got = cc.get_category_types(ch).bits();
        if got != bits {
            return (Some((c, bits, got)), multi, n);
        }
    }
    (None, multi, n)
}

fn names(bits: u32) -> String {
    format!("{:?}", CategoryType::from_bits_retain(bits))
}

pub fn run(ctx: &Ctx, rep: &mut Report) {
    let n_defs = ctx.n(960, 48000);
    // one file path for the whole run, rewritten for every definition: what the path-based loader returns must be
    // the classes of the file's current content
    let dir = crate::env::ResDir::new();
    let def_path = dir.path.join("char.def");
    for di in ctx.indices(n_defs) {
        if ctx.out_of_time() {
            rep.notes.push(format!("stopped at definition {} (time budget)", di));
            break;
        }
        let mut rng = Rng::derive(ctx.seed, 0xC17, di);
        rep.progress_idx(di, "C17 definition");
        let max_lines = *rng.pick(&[0usize, 1, 3, 8, 20, 40]);
        let mut lines = gen_lines(&mut rng, max_lines);
        let text = render(&mut rng, &lines);
        rep.eval();
        let scenario = |t: &str| json!({"definition_index": di, "char_def": t});
        // now and then a byte that is not UTF-8 inside a comment line somewhere in the file: the reader refuses such a
        // file today; if it loads, it loads all of its definition lines
        let mut bytes: Vec<u8> = text.as_bytes().to_vec();
        if rng.chance(1, 16) {
            let line_starts: Vec<usize> = std::iter::once(0).chain(text.match_indices('\n').map(|(i, _)| i + 1)).filter(|i| *i < text.len()).collect();
            let at = *rng.pick(&line_starts);
            let junk: &[u8] = b"# caf\xe9 \xff\n";
            bytes.splice(at..at, junk.iter().cloned());
            rep.count("definitions_with_a_non_utf8_comment", 1);
        }
        let cc = match guard(|| CharacterCategory::from_reader(&bytes[..])) {
            Ok(Ok(cc)) => cc,
            Ok(Err(e)) => {
                rep.count("definitions_rejected", 1);
                rep.notes.push(format!("definition {} rejected: {:?}", di, e));
                continue;
            }
            Err(p) => {
                rep.skipped_panic(&p, scenario(&text));
                continue;
            }
        };
        rep.count("definitions_loaded", 1);
        let res = guard(|| sweep(&cc, &lines));
        match res {
            Err(p) => {
                rep.violation("query_panic", &p.site, &p.msg, "", scenario(&text));
                continue;
            }
            Ok((Some((c, exp, got)), _, _)) => {
                rep.violation("classes", "get_category_types", &format!("U+{:04X}: lines covering it give {} but {} is reported", c, names(exp), names(got)), "", scenario(&text));
                continue;
            }
            Ok((None, multi, n)) => {
                rep.count("code_points_checked", n);
                if multi > 0 {
                    rep.count("definitions_with_overlapping_lines", 1);
                    rep.nontrivial(fnv(text.as_bytes()));
                }
            }
        }
        // the same definition through the path-based loader (same path as for the previous definition)
        {
            dir.write_bytes("char.def", &bytes);
            match guard(|| CharacterCategory::from_file(&def_path)) {
                Ok(Ok(cf)) => {
                    let mut probes: Vec<u32> = ANCHORS.to_vec();
                    for l in &lines {
                        for d in [-1i64, 0, 1] {
                            probes.push((l.lo as i64 + d).clamp(0, 0x10ffff) as u32);
                            probes.push((l.hi as i64 + d).clamp(0, 0x10ffff) as u32);
                        }
                        probes.push(l.lo + (l.hi - l.lo) / 2);
                    }
                    for c in probes {
                        if let Some(ch) = char::from_u32(c) {
                            let exp = expected_bits(&lines, c);
                            let got = cf.get_category_types(ch).bits();
                            rep.count("code_points_checked_through_from_file", 1);
                            if got != exp {
                                rep.violation("classes", "CharacterCategory::from_file", &format!("U+{:04X}: the lines of the file give {} but {} is reported by the definition loaded from the file's path", c, names(exp), names(got)), "", scenario(&text));
                                break;
                            }
                        }
                    }
                }
                Ok(Err(e)) => rep.violation("order_dependence", "CharacterCategory::from_file", &format!("the definition loads from a reader but not from a file: {:?}", e), "", scenario(&text)),
                Err(p) => rep.violation("query_panic", &p.site, &p.msg, "", scenario(&text)),
            }
        }
        // ... and now and then from a path that is not a regular file (a named pipe: its size is not known in advance)
        if di % 64 == 7 {
            let fifo = dir.path.join("char.fifo");
            let _ = std::fs::remove_file(&fifo);
            let made = std::process::Command::new("mkfifo").arg(&fifo).status().map(|s| s.success()).unwrap_or(false);
            if made {
                let data = bytes.clone();
                let fp = fifo.clone();
                let writer = std::thread::spawn(move || {
                    if let Ok(mut f) = std::fs::OpenOptions::new().write(true).open(&fp) {
                        use std::io::Write;
                        let _ = f.write_all(&data);
                    }
                });
                let r = guard(|| CharacterCategory::from_file(&fifo));
                let _ = writer.join();
                let _ = std::fs::remove_file(&fifo);
                match r {
                    Ok(Ok(cf)) => {
                        rep.count("definitions_loaded_through_a_named_pipe", 1);
                        for l in &lines {
                            for c in [l.lo, l.hi, l.lo + (l.hi - l.lo) / 2] {
                                if let Some(ch) = char::from_u32(c) {
                                    let exp = expected_bits(&lines, c);
                                    let got = cf.get_category_types(ch).bits();
                                    if got != exp {
                                        rep.violation("classes", "CharacterCategory::from_file", &format!("definition read from a named pipe: U+{:04X} must have {} but {} is reported", c, names(exp), names(got)), "", scenario(&text));
                                        break;
                                    }
                                }
                            }
                        }
                    }
                    Ok(Err(e)) => rep.violation("order_dependence", "CharacterCategory::from_file", &format!("the definition loads from a reader but not from a named pipe: {:?}", e), "", scenario(&text)),
                    Err(p) => rep.violation("query_panic", &p.site, &p.msg, "", scenario(&text)),
                }
            }
        }
        // iteration over ranges agrees with the point query and tiles the code space
        if !lines.is_empty() {
            let r = guard(|| {
                let mut pos = 0u32;
                let mut cnt = 0u64;
                for (range, cat) in cc.iter() {
                    if range.start as u32 != pos {
                        return Err(format!("range starts at U+{:04X} but the previous one ended at U+{:04X}", range.start as u32, pos));
                    }
                    if range.start < range.end {
                        for probe in [range.start as u32, (range.end as u32).saturating_sub(1)] {
                            if let Some(ch) = char::from_u32(probe) {
                                if ch >= range.start && ch < range.end {
                                    let e = expected_bits(&lines, probe);
                                    if cat.bits() != e {
                                        return Err(format!("iter() range {:?} has {} but U+{:04X} must have {}", range, names(cat.bits()), probe, names(e)));
                                    }
                                }
                            }
                        }
                    }
                    pos = range.end as u32;
                    cnt += 1;
                }
                if pos != char::MAX as u32 {
                    return Err(format!("ranges end at U+{:04X}", pos));
                }
                Ok(cnt)
            });
            match r {
                Err(p) => rep.violation("iter_panic", &p.site, &p.msg, "", scenario(&text)),
                Ok(Err(m)) => rep.violation("iter", "CharacterCategory::iter", &m, "", scenario(&text)),
                Ok(Ok(cnt)) => rep.count("iter_ranges_checked", cnt),
            }
        }
        // order independence: same lines shuffled
        if lines.len() >= 2 {
            rng.shuffle(&mut lines);
            let text2 = render(&mut rng, &lines);
            match guard(|| CharacterCategory::from_reader(text2.as_bytes())) {
                Ok(Ok(cc2)) => match guard(|| sweep(&cc2, &lines)) {
                    Ok((Some((c, exp, got)), _, _)) => rep.violation("classes", "get_category_types(shuffled)", &format!("U+{:04X}: expected {} got {} after permuting the lines", c, names(exp), names(got)), "", scenario(&text2)),
                    Ok((None, _, n)) => {
                        rep.count("code_points_checked", n);
                        rep.count("permutations_checked", 1);
                    }
                    Err(p) => rep.violation("query_panic", &p.site, &p.msg, "", scenario(&text2)),
                },
                Ok(Err(e)) => rep.violation("order_dependence", "from_reader", &format!("definition loads in one line order but not in another: {:?}", e), "", scenario(&text2)),
                Err(p) => rep.skipped_panic(&p, scenario(&text2)),
            }
        }
        if rep.want_sample() && lines.len() >= 3 {
            rep.sample(json!({"char_def": text, "lines": lines.len()}));
        }
    }
}
