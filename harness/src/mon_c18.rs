//! C18 — one loaded dictionary can be shared by concurrent tokenizers.
//! The same worker is built plainly (result + digest monitors), with ThreadSanitizer and run under Miri.

use serde_json::json;
use std::sync::atomic::{AtomicU64, Ordering};
use std::sync::{Arc, Barrier, Mutex};
use sudachi::analysis::stateless_tokenizer::DictionaryAccess;
use sudachi::dic::dictionary::JapaneseDictionary;
use sudachi::dic::word_id::WordId;
use sudachi::analysis::Mode;

use crate::dictgen::{self, DictOpts};
use crate::env::Place;
use crate::fields::{field_values, subset_of};
use crate::model::Entry;
use crate::report::{clip, guard, Report};
use crate::rng::{fnv, Rng};
use crate::scen::{build_world_from, observe, PluginOpts, Tok, MODES};
use crate::textgen;
use crate::Ctx;

static CLOCK: AtomicU64 = AtomicU64::new(0);

fn digest(world: &crate::scen::World, dict: &JapaneseDictionary) -> u64 {
    let mut h: u64 = 0xcbf29ce484222325;
    let mut add = |s: &str| {
        h = crate::rng::mix(h, fnv(s.as_bytes()));
    };
    let cm = dict.grammar().conn_matrix();
    for a in 0..cm.num_left() {
        for b in 0..cm.num_right() {
            add(&cm.cost(a as u16, b as u16).to_string());
        }
    }
    for p in dict.grammar().pos_list.iter() {
        add(&p.join(","));
    }
    for dic in 0..=world.users.len() {
        for row in 0..world.lexicon_of(dic).entries.len() {
            let wid = WordId::new(dic as u8, row as u32);
            let (l, r, c) = dict.lexicon().get_word_param(wid);
            add(&format!("{},{},{}", l, r, c));
            if let Ok(wi) = dict.lexicon().get_word_info(wid) {
                for f in field_values(&wi).iter() {
                    add(f);
                }
            }
        }
    }
    h
}

type Key = (usize, usize, u32); // text index, mode index, subset bits
type Res = Result<Vec<(usize, usize, u32, String, String, u16)>, String>;

fn analyse(t: &mut Tok, text: &str) -> Res {
    t.run(text).map_err(|e| format!("{:?}", e))?;
    Ok(observe(&t.list).into_iter().map(|o| (o.begin, o.end, o.word_id, o.norm, o.reading, o.pos_id)).collect())
}

/// Tokenizers created with the debug flag (they dump the input, the lattice and the path to standard output) are
/// tokenizers like any other: several of them, one per thread, over one shared dictionary. The threads are not
/// scoped, so that a group of threads that blocks for good can be told from a slow machine: the debug threads make no
/// progress at all for 20 s while a control thread (same dictionary, same texts, no debug flag) keeps completing
/// analyses by the hundred. Otherwise the results are compared with the single-threaded ones.
fn debug_phase(rep: &mut Report, idx: u64, world: &crate::scen::World, texts: &[String]) {
    use std::sync::atomic::AtomicBool;
    use sudachi::analysis::stateful_tokenizer::StatefulTokenizer;
    use sudachi::prelude::MorphemeList;
    let cfg = crate::env::config(&world.cfg_json, &world.res);
    let dict: &'static JapaneseDictionary = match guard(|| crate::env::load(&cfg, &world.sys_bytes, &world.user_bytes, Place::Owned)) {
        Ok(Ok(d)) => Box::leak(Box::new(d)),
        _ => return,
    };
    crate::env::silence_stdout();
    let texts: Arc<Vec<String>> = Arc::new(texts.iter().filter(|t| t.chars().count() < 60).take(12).cloned().collect());
    if texts.is_empty() {
        return;
    }
    fn one(tok: &mut StatefulTokenizer<&'static JapaneseDictionary>, list: &mut MorphemeList<&'static JapaneseDictionary>, text: &str) -> Res {
        tok.reset().push_str(text);
        tok.do_tokenize().map_err(|e| format!("{:?}", e))?;
        list.collect_results(tok).map_err(|e| format!("{:?}", e))?;
        Ok(list.iter().map(|m| (m.begin(), m.end(), m.word_id().as_raw(), m.normalized_form().to_string(), m.reading_form().to_string(), m.part_of_speech_id())).collect())
    }
    let n_threads = 4usize;
    let per_thread = 30usize;
    let progress = Arc::new(AtomicU64::new(0));
    let finished = Arc::new(AtomicU64::new(0));
    let control_ops = Arc::new(AtomicU64::new(0));
    let stop = Arc::new(AtomicBool::new(false));
    let results: Arc<Mutex<Vec<(usize, usize, Res)>>> = Arc::new(Mutex::new(vec![]));
    let barrier = Arc::new(Barrier::new(n_threads + 1));
    for ti in 0..n_threads {
        let (texts, progress, finished, results, barrier) = (texts.clone(), progress.clone(), finished.clone(), results.clone(), barrier.clone());
        std::thread::spawn(move || {
            let mode = MODES[ti % 3];
            let mut tok = StatefulTokenizer::create(dict, true, mode);
            let mut list = MorphemeList::empty(dict);
            barrier.wait();
            for k in 0..per_thread {
                let r = std::panic::catch_unwind(std::panic::AssertUnwindSafe(|| one(&mut tok, &mut list, &texts[k % texts.len()]))).unwrap_or_else(|_| Err("panic".to_string()));
                results.lock().unwrap().push((ti, k, r));
                progress.fetch_add(1, Ordering::SeqCst);
            }
            finished.fetch_add(1, Ordering::SeqCst);
        });
    }
    {
        let (texts, control_ops, stop, barrier) = (texts.clone(), control_ops.clone(), stop.clone(), barrier.clone());
        std::thread::spawn(move || {
            let mut tok = StatefulTokenizer::new(dict, Mode::C);
            let mut list = MorphemeList::empty(dict);
            barrier.wait();
            let mut k = 0usize;
            while !stop.load(Ordering::SeqCst) {
                let _ = std::panic::catch_unwind(std::panic::AssertUnwindSafe(|| one(&mut tok, &mut list, &texts[k % texts.len()])));
                control_ops.fetch_add(1, Ordering::SeqCst);
                k += 1;
            }
        });
    }
    let t0 = std::time::Instant::now();
    let mut last_progress = 0u64;
    let mut last_change = std::time::Instant::now();
    let mut control_at_change = 0u64;
    let mut blocked = false;
    loop {
        std::thread::sleep(std::time::Duration::from_millis(20));
        if finished.load(Ordering::SeqCst) == n_threads as u64 {
            break;
        }
        let p = progress.load(Ordering::SeqCst);
        let c = control_ops.load(Ordering::SeqCst);
        if p != last_progress {
            last_progress = p;
            last_change = std::time::Instant::now();
            control_at_change = c;
        } else if last_change.elapsed().as_secs() >= 20 && c >= control_at_change + 500 {
            blocked = true;
            break;
        }
        if t0.elapsed().as_secs() > 180 {
            rep.notes.push(format!("repetition {}: debug-tokenizer threads neither finished nor were shown to be blocked within 180 s (not judged)", idx));
            stop.store(true, Ordering::SeqCst);
            return;
        }
    }
    stop.store(true, Ordering::SeqCst);
    rep.count("repetitions_with_debug_tokenizers_in_threads", 1);
    let scen = || json!({"repetition": idx, "threads_with_debug_tokenizers": n_threads, "operations_each": per_thread, "texts": *texts, "world": world.describe(false)});
    if blocked {
        rep.violation("threads_blocked", "debug tokenizers", &format!("{} threads with debug tokenizers completed {} of {} analyses and then none for 20 s, while a thread with an ordinary tokenizer on the same dictionary completed {} analyses in that time", n_threads, last_progress, n_threads * per_thread, control_ops.load(Ordering::SeqCst) - control_at_change), "", scen());
        return;
    }
    // same results as an ordinary tokenizer, one thread
    let mut base_tok: Vec<StatefulTokenizer<&'static JapaneseDictionary>> = MODES.iter().map(|m| StatefulTokenizer::new(dict, *m)).collect();
    let mut base_list = MorphemeList::empty(dict);
    let res = results.lock().unwrap();
    for (ti, k, r) in res.iter() {
        let b = match guard(|| one(&mut base_tok[ti % 3], &mut base_list, &texts[k % texts.len()])) {
            Ok(b) => b,
            Err(p) => Err(format!("panic: {}", p.msg)),
        };
        rep.count("debug_tokenizer_results_compared", 1);
        if b != *r {
            rep.violation("result_differs_from_single_threaded", "debug tokenizers", &format!("thread {} analysis {} (text {:?}): with the debug flag in a thread {:?}, ordinary tokenizer alone {:?}", ti, k, clip(&texts[k % texts.len()], 40), clip(&format!("{:?}", r), 200), clip(&format!("{:?}", b), 200)), "", scen());
            break;
        }
    }
}

pub fn run(ctx: &Ctx, rep: &mut Report) {
    let (reps, per_thread) = match ctx.stage.as_str() {
        "miri" => (1u64, 5usize),
        "tsan" | "asan" => (ctx.n(2, 20), 120),
        _ => (ctx.n(3, 60), 200),
    };
    let miri = ctx.stage == "miri";
    sudachi::verif::YIELD.store(true, Ordering::Relaxed);
    for ri in 0..reps {
        if ctx.out_of_time() {
            rep.notes.push(format!("stopped at repetition {} (time budget)", ri));
            break;
        }
        let idx = ctx.shard + ctx.nshards * ri;
        if ctx.only.map(|o| o != idx).unwrap_or(false) {
            continue;
        }
        let mut rng = Rng::derive(ctx.seed, 0xC18, idx);
        rep.progress_idx(idx, "C18 repetition");
        let dopts = DictOpts { max_entries: if miri { 10 } else { 40 }, ..DictOpts::default() };
        let matrix = dictgen::gen_matrix(&mut rng, &dopts);
        let mut sys = dictgen::gen_system(&mut rng, &dopts, &matrix);
        let pool = dictgen::pos_pool();
        let nid = matrix.nid() as i64;
        for k in ["ア", "カ", "イウ", "1", "2", "一", "十", "万"] {
            sys.entries.push(Entry::simple(k, rng.range(0, nid - 1) as i16, rng.range(0, nid - 1) as i16, rng.range(0, 3000) as i16, &pool[if k.chars().all(|c| "12一十万".contains(c)) { 1 } else { 0 }]));
        }
        // every sixth repetition: thousands of words whose dictionary form is another entry, and texts made of them
        // (whatever is remembered per dictionary form is exercised with far more forms than any small table holds)
        let big_forms = !miri && idx % 6 == 3;
        let mut inflected: Vec<String> = vec![];
        if big_forms {
            let alpha: Vec<char> = "さしすせそたちつてとなにぬねのはひふへほまみむめもらりるれろ".chars().collect();
            let base = sys.entries.len();
            let n = 1500;
            for k in 0..n {
                let lemma: String = [alpha[k % 30], alpha[(k / 30) % 30], alpha[(k / 900) % 30], 'る'].iter().collect();
                sys.entries.push(Entry::simple(&lemma, rng.range(0, nid - 1) as i16, rng.range(0, nid - 1) as i16, 3000, &pool[3]));
            }
            for k in 0..n {
                let infl: String = [alpha[k % 30], alpha[(k / 30) % 30], alpha[(k / 900) % 30], 'っ', 'た'].iter().collect();
                let mut e = Entry::simple(&infl, rng.range(0, nid - 1) as i16, rng.range(0, nid - 1) as i16, -1500, &pool[3]);
                e.dic_form = Some(crate::model::Ref { dic: 0, row: base + k, inline: false });
                sys.entries.push(e);
                inflected.push(infl);
            }
            rep.count("repetitions_with_thousands_of_dictionary_forms", 1);
        }
        // every third repetition: hundreds of compound words with declared A/B units, and texts made of them, so that in
        // modes A and B many different compounds are split for the first time by different threads at the same moment
        // (whatever is remembered per compound is filled under contention) and split again later by every thread
        let big_compounds = !miri && idx % 3 == 2;
        let mut compounds: Vec<String> = vec![];
        if big_compounds {
            let alpha: Vec<char> = "さしすせそたちつてとなにぬねのはひふへほまみむめもらりるれろ".chars().collect();
            let n = 400;
            for k in 0..n {
                let base = sys.entries.len();
                let a: String = [alpha[k % 30], alpha[(k / 30) % 30], 'ゑ'].iter().collect();
                let b: String = [alpha[(k / 30) % 30], alpha[k % 30], 'ゐ'].iter().collect();
                for u in [&a, &b] {
                    let mut e = Entry::simple(u, rng.range(0, nid - 1) as i16, rng.range(0, nid - 1) as i16, 4000, &pool[0]);
                    e.reading = format!("{}ヨミ", u);
                    sys.entries.push(e);
                }
                let mut e = Entry::simple(&format!("{}{}", a, b), rng.range(0, nid - 1) as i16, rng.range(0, nid - 1) as i16, -3000, &pool[0]);
                e.mode = "C";
                e.split_a = vec![crate::model::Ref { dic: 0, row: base, inline: false }, crate::model::Ref { dic: 0, row: base + 1, inline: false }];
                e.split_b = e.split_a.clone();
                compounds.push(e.key.clone());
                sys.entries.push(e);
            }
            rep.count("repetitions_with_hundreds_of_compounds", 1);
        }
        // every plugin type
        let mut p = PluginOpts::random(&mut rng, &matrix, true);
        p.default_input = true;
        p.prolonged = true;
        p.yomigana = true;
        p.mecab = true;
        p.regex = Some(("[a-z]+[0-9]*".to_string(), true, 32));
        if !miri && idx % 4 == 1 {
            // a pattern whose second alternative is not anchored, with the provider's debug checks on: some analyses end
            // in an error value, in every thread and every time exactly as in the single-threaded run
            p.regex = Some(("[0-9]+|[a-z]+".to_string(), true, 32));
            p.regex_debug = true;
            rep.count("repetitions_with_regex_debug_errors_possible", 1);
        }
        p.join_numeric = Some(true);
        p.join_katakana = Some(2);
        p.inhibit = vec![(0, 0)];
        p.n_users = if miri { 1 } else { 2 };
        let world = match guard(|| build_world_from(&mut rng, &dopts, matrix, sys, p, if idx % 2 == 0 { Place::Owned } else { Place::Offset(1) })) {
            Ok(Ok(w)) => w,
            Ok(Err(e)) => {
                rep.notes.push(format!("repetition {}: {}", idx, clip(&e, 200)));
                continue;
            }
            Err(pn) => {
                rep.skipped_panic(&pn, json!({"repetition": idx}));
                continue;
            }
        };
        let keys = world.keys();
        // "any number of threads": also more threads than cores and more than any small fixed table would hold
        let n_threads = if miri { 2 + (idx % 2) as usize } else { [2usize, 4, 8, 16, 40, 72][(idx % 6) as usize] };
        let per_thread = if n_threads > 16 { per_thread / 3 } else { per_thread };
        // shared pool of texts (on purpose: the same lazily initialised tables are first touched by several threads at once)
        let n_texts = if miri { 6 } else { 60 };
        let mut texts: Vec<String> = (0..n_texts).map(|i| if i % 5 == 0 { format!("{}ア1,000カカa1", textgen::text_from_keys(&mut rng, &keys, 3)) } else { textgen::text_from_keys(&mut rng, &keys, 8) }).collect();
        // a few texts full of distinct characters with multi-character normal forms (squared katakana, enclosed
        // letters, ligatures): whatever the normaliser keeps between calls is exercised with many different keys
        if !miri {
            let n_rich = if idx % 2 == 0 { 24 } else { 5 };
            for k in 1..n_rich.min(texts.len()) {
                let mut s = String::new();
                for _ in 0..150 {
                    let cp = *rng.pick(&[0x3300u32, 0x3200, 0x3280, 0xfb00, 0x2460, 0x24b6, 0x3250, 0x32c0]) + rng.below(0x50) as u32;
                    if let Some(c) = char::from_u32(cp) {
                        s.push(c);
                    }
                }
                texts[k] = s;
            }
        }
        if big_forms {
            for k in 1..texts.len() {
                let mut t = String::new();
                for _ in 0..30 {
                    t.push_str(rng.pick(&inflected[..]).as_str());
                }
                texts[k] = t;
            }
        }
        if big_compounds {
            texts.resize(240, String::new());
            for k in 1..texts.len() {
                let mut t = String::new();
                for _ in 0..3 {
                    t.push_str(rng.pick(&compounds[..]).as_str());
                }
                texts[k] = t;
            }
        }
        // text 0 exercises every input-text plugin at once: all threads analyse it first, so whatever is
        // initialised on first use is initialised under contention
        texts[0] = format!("東京(とうきょう)ＡＢスーーーパー㍿京（キョウ）{}", texts[0]);
        // per-thread streams: (text, mode, subset)
        let subsets = [0x3ffu32, 0x3ff, 0x001, 0x00d, 0x02d, 0x3c0];
        let streams: Vec<Vec<Key>> = (0..n_threads)
            .map(|_| (0..per_thread).map(|k| (if k < 2 { 0 } else { rng.below(texts.len()) }, if big_compounds && k >= 2 { rng.below(2) } else { rng.below(3) }, *rng.pick(&subsets))).collect())
            .collect();
        // a twin load of the same bytes that is never used concurrently: reference for the digest and
        // for the single-threaded baseline (the shared dictionary is not touched before the threads start)
        let twin_cfg = crate::env::config(&world.cfg_json, &world.res);
        let twin = match guard(|| crate::env::load(&twin_cfg, &world.sys_bytes, &world.user_bytes, Place::Owned)) {
            Ok(Ok(d)) => d,
            _ => {
                rep.notes.push("twin load failed".to_string());
                continue;
            }
        };
        let before = digest(&world, &twin);
        let dict: &JapaneseDictionary = &world.dict;
        let barrier = Arc::new(Barrier::new(n_threads));
        let log: Mutex<Vec<(usize, u64, u64)>> = Mutex::new(vec![]);
        let results: Mutex<Vec<(usize, usize, Key, Res)>> = Mutex::new(vec![]);
        let panicked = Mutex::new(Vec::<String>::new());
        std::thread::scope(|s| {
            for (ti, stream) in streams.iter().enumerate() {
                let barrier = barrier.clone();
                let texts = &texts;
                let log = &log;
                let results = &results;
                let panicked = &panicked;
                s.spawn(move || {
                    barrier.wait();
                    // one tokenizer per (mode, subset) used by this thread, created lazily
                    let mut toks: std::collections::HashMap<(usize, u32), Tok> = Default::default();
                    let mut local = vec![];
                    let mut local_log = vec![];
                    for (k, key) in stream.iter().enumerate() {
                        let t = toks.entry((key.1, key.2)).or_insert_with(|| {
                            let mut t = Tok::new(dict, MODES[key.1]);
                            t.tok.set_subset(subset_of(key.2));
                            t
                        });
                        let start = CLOCK.fetch_add(1, Ordering::SeqCst);
                        let r = std::panic::catch_unwind(std::panic::AssertUnwindSafe(|| analyse(t, &texts[key.0])));
                        let end = CLOCK.fetch_add(1, Ordering::SeqCst);
                        local_log.push((ti, start, end));
                        match r {
                            Ok(r) => local.push((ti, k, *key, r)),
                            Err(_) => {
                                panicked.lock().unwrap().push(format!("thread {} op {} text {:?}", ti, k, texts[key.0]));
                                toks.remove(&(key.1, key.2));
                            }
                        }
                    }
                    log.lock().unwrap().extend(local_log);
                    results.lock().unwrap().extend(local);
                });
            }
        });
        // sentence splitting with a window larger than the default and the shared lexicon as non-break checker, from
        // several threads at once: the first terminator lies beyond 4,096 characters
        if !miri && idx % 3 == 2 {
            use sudachi::sentence_splitter::{SentenceSplitter, SplitSentences};
            let long_text = format!("{}。{}！あ。い", "あ".repeat(4300 + rng.below(500)), rng.pick(&texts[..]));
            let split = |d: &JapaneseDictionary| -> Vec<(usize, usize)> {
                SentenceSplitter::with_limit(16384).with_checker(d.lexicon()).split(&long_text).map(|(r, _)| (r.start, r.end)).collect()
            };
            let base_split = split(&twin);
            let bad = Mutex::new(Vec::<String>::new());
            std::thread::scope(|s| {
                for ti in 0..n_threads.min(16) {
                    let bad = &bad;
                    let base_split = &base_split;
                    let split = &split;
                    s.spawn(move || {
                        for k in 0..20 {
                            let got = std::panic::catch_unwind(std::panic::AssertUnwindSafe(|| split(dict)));
                            match got {
                                Ok(g) if g == *base_split => {}
                                Ok(g) => {
                                    bad.lock().unwrap().push(format!("thread {} round {}: sentences {:?}, single-threaded {:?}", ti, k, g.iter().take(4).collect::<Vec<_>>(), base_split.iter().take(4).collect::<Vec<_>>()));
                                    return;
                                }
                                Err(_) => {
                                    bad.lock().unwrap().push(format!("thread {} round {}: sentence splitting panicked", ti, k));
                                    return;
                                }
                            }
                        }
                    });
                }
            });
            rep.count("concurrent_sentence_splittings", (n_threads.min(16) * 20) as u64);
            for m in bad.lock().unwrap().iter().take(2) {
                rep.violation("result_differs_from_single_threaded", "SentenceSplitter", m, "", json!({"repetition": idx, "threads": n_threads, "text_chars": long_text.chars().count()}));
            }
        }
        if ctx.stage == "main" && idx % 4 == 0 {
            debug_phase(rep, idx, &world, &texts);
        }
        let after = digest(&world, &world.dict);
        let scen = |extra: &str| json!({"repetition": idx, "threads": n_threads, "detail": extra, "world": world.describe(false)});
        rep.count("repetitions", 1);
        rep.max("max_threads", n_threads as u64);
        if before != after {
            rep.violation("dictionary_modified", "digest", "after the concurrent phase the digest of the shared dictionary (matrix, word parameters, POS list, word infos) differs from an untouched load of the same bytes", "", scen(""));
        }
        for pmsg in panicked.lock().unwrap().iter() {
            rep.violation("panic_in_thread", "analysis", pmsg, "", scen(""));
        }
        // overlap evidence
        let mut lg = log.lock().unwrap().clone();
        lg.sort_by_key(|x| x.1);
        let mut overlaps = 0u64;
        for i in 0..lg.len() {
            let mut j = i + 1;
            while j < lg.len() && lg[j].1 < lg[i].2 {
                if lg[j].0 != lg[i].0 {
                    overlaps += 1;
                }
                j += 1;
            }
        }
        rep.count("overlapping_operation_pairs_between_threads", overlaps);
        let order_sig = fnv(format!("{:?}", lg.iter().map(|x| x.0).collect::<Vec<_>>()).as_bytes());
        rep.nontrivial(order_sig);
        // single-threaded baseline AFTER the concurrent phase
        let mut base: std::collections::HashMap<Key, Res> = Default::default();
        let mut base_toks: std::collections::HashMap<(usize, u32), Tok> = Default::default();
        let res = results.lock().unwrap();
        for (ti, k, key, r) in res.iter() {
            rep.eval();
            let b = base.entry(*key).or_insert_with(|| {
                let t = base_toks.entry((key.1, key.2)).or_insert_with(|| {
                    let mut t = Tok::new(&twin, MODES[key.1]);
                    t.tok.set_subset(subset_of(key.2));
                    t
                });
                match guard(|| analyse(t, &texts[key.0])) {
                    Ok(r) => r,
                    Err(p) => Err(format!("panic: {} {}", p.site, p.msg)),
                }
            });
            rep.count("concurrent_results_compared_with_baseline", 1);
            if b != r {
                rep.violation("result_differs_from_single_threaded", "analysis", &format!("thread {} operation {} (text {:?}, mode {}, subset {:#x}): concurrent {:?}, single-threaded {:?}", ti, k, clip(&texts[key.0], 40), key.1, key.2, clip(&format!("{:?}", r), 300), clip(&format!("{:?}", b), 300)), "", scen(""));
                break;
            }
        }
        if rep.want_sample() {
            rep.sample(json!({"threads": n_threads, "operations_per_thread": per_thread, "overlapping_pairs": overlaps, "first_operations_by_thread": lg.iter().take(24).map(|x| x.0).collect::<Vec<_>>(), "plugins": world.cfg_json}));
        }
    }
    sudachi::verif::YIELD.store(false, Ordering::Relaxed);
}
