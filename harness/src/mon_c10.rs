//! C10 — results do not depend on what a tokenizer or result list processed before.
//! History + executable model: the model is a freshly created tokenizer + list.

use serde_json::{json, Value};
use sudachi::analysis::Mode;
use sudachi::prelude::MorphemeList;

use crate::dictgen::DictOpts;
use crate::env::Place;
use crate::fields::{field_values, subset_of, FIELD_NAMES, PATH_REWRITE_NEEDS};
use crate::report::{clip, guard, Report};
use crate::rng::{fnv, Rng};
use crate::scen::{mode_name, observe, Tok, World, MODES};
use crate::textgen;
use crate::Ctx;

fn gen_text(rng: &mut Rng, keys: &[String]) -> String {
    match rng.below(10) {
        0 => String::new(),
        1 => "あ".repeat(17000), // > 49,149 bytes: rejected as too long
        2 => "\u{fdfa}".repeat(2100), // normalised form > 65,535 bytes with the default input plugin
        3 => {
            // long class runs
            let c = textgen::pick_char(rng);
            c.repeat(5 + rng.below(80))
        }
        4 => textgen::text_from_keys(rng, keys, 25),
        _ => textgen::text_from_keys(rng, keys, 8),
    }
}

/// Texts for worlds whose regex provider runs with its debug checks on (a pattern with an alternative that is not
/// anchored): runs of 64 and more letters, so that (a) an analysis fails at a position where another provider has
/// already created a long word, and (b) a later text has a regex word of the same long length
fn long_run_family(rng: &mut Rng) -> String {
    let l = *rng.pick(&[64usize, 72]);
    match rng.below(4) {
        // the letters é are a class run of l characters that the pattern does not match; it matches "ab" further on
        0 => format!("{}。ab", "é".repeat(l)),
        1 => format!("{}#ab", "É".repeat(l)),
        // the pattern matches l characters, the class run is longer
        2 => format!("{}{}", "a".repeat(l), "é".repeat(10)),
        _ => format!("{}{}", "a".repeat(l), "ø".repeat(3)),
    }
}

/// what is compared for one analysis: boundaries, word ids, requested fields
fn snapshot(t: &Tok, bits: u32) -> Result<Vec<(usize, usize, u32, Vec<String>)>, String> {
    snapshot_list(&t.list, bits)
}

fn snapshot_list(list: &MorphemeList<&sudachi::dic::dictionary::JapaneseDictionary>, bits: u32) -> Result<Vec<(usize, usize, u32, Vec<String>)>, String> {
    let obs = observe(list);
    let mut v = vec![];
    for (k, o) in obs.iter().enumerate() {
        let f = field_values(list.get(k).get_word_info());
        let req: Vec<String> = (0..10).filter(|i| bits & (1 << i) != 0).map(|i| format!("{}={}", FIELD_NAMES[i], f[i])).collect();
        v.push((o.begin, o.end, o.word_id, req));
    }
    Ok(v)
}

/// Failures late in an analysis: the image of the system dictionary has lost its last bytes (a truncated copy), so
/// the record of its last word cannot be read and an analysis whose best path holds that word fails after the
/// lattice was built and the path was found. Such a failure, too, must leave the tokenizer usable and history-free.
fn truncated_image_histories(rep: &mut Report, wi: u64, world: &World, rng: &mut Rng) {
    let cfg = crate::env::config(&world.cfg_json, &world.res);
    for cut in [2usize, 1, 3, 5] {
        if world.sys_bytes.len() <= cut {
            continue;
        }
        let bytes = &world.sys_bytes[..world.sys_bytes.len() - cut];
        let dict = match guard(|| crate::env::load(&cfg, bytes, &world.user_bytes, Place::Owned)) {
            Ok(Ok(d)) => d,
            _ => {
                rep.count("truncated_images_not_loadable", 1);
                continue;
            }
        };
        let keys = world.keys();
        // texts a fresh tokenizer rejects with an error value (not a panic) although they are short
        let mut failing: Vec<String> = vec![];
        for e in world.sys.entries.iter().rev().take(4) {
            if !e.indexed() || e.key.is_empty() {
                continue;
            }
            for text in [e.key.clone(), format!("{}{}", rng.pick(&keys), e.key)] {
                let mut f = Tok::new(&dict, Mode::C);
                if let Ok(Err(_)) = guard(|| f.run(&text)) {
                    failing.push(text);
                }
            }
        }
        if failing.is_empty() {
            rep.count("truncated_images_without_failing_text", 1);
            continue;
        }
        rep.count("truncated_images_used", 1);
        let mode = MODES[rng.below(3)];
        let mut live = Tok::new(&dict, mode);
        let mut history: Vec<Value> = vec![];
        for _ in 0..12 {
            let fail_now = rng.chance(1, 2);
            let text = if fail_now { rng.pick(&failing).clone() } else { textgen::text_from_keys(rng, &keys, 6) };
            history.push(json!({"op": if fail_now { "analyse a text whose path cannot be resolved" } else { "analyse" }, "text": clip(&text, 80)}));
            match guard(|| live.run(&text)) {
                Ok(Ok(())) => {}
                Ok(Err(_)) => rep.count("analyses_failed_after_the_path_was_found", fail_now as u64),
                Err(p) => {
                    rep.skipped_panic(&p, json!({"history": history}));
                    return;
                }
            }
            let plen = 1 + rng.below(6);
            let probe = textgen::text_from_keys(rng, &keys, plen);
            rep.eval();
            let mut fresh = Tok::new(&dict, mode);
            let scen = || json!({"world_index": wi, "system_image_truncated_by": cut, "history": history, "probe": probe, "mode": mode_name(mode), "world": world.describe(true)});
            let rl = guard(|| live.run(&probe).map_err(|e| format!("{:?}", e)).and_then(|_| snapshot(&live, 0x3ff)));
            let rf = guard(|| fresh.run(&probe).map_err(|e| format!("{:?}", e)).and_then(|_| snapshot(&fresh, 0x3ff)));
            match (rl, rf) {
                (Ok(Ok(a)), Ok(Ok(b))) => {
                    rep.count("probes_compared_after_late_failures", 1);
                    if a != b {
                        let k = a.iter().zip(b.iter()).position(|(x, y)| x != y).unwrap_or(a.len().min(b.len()));
                        rep.violation("history_dependence", "probe", &format!("after an analysis that failed while its path was resolved, morpheme {} differs: long-lived {:?} vs fresh {:?} ({} vs {} morphemes)", k, a.get(k), b.get(k), a.len(), b.len()), "", scen());
                        return;
                    }
                }
                (Ok(Err(_)), Ok(Err(_))) => {}
                (Err(p), Ok(_)) => {
                    rep.violation("history_panic", &p.site, &format!("after an analysis that failed while its path was resolved, the probe panics on the long-lived tokenizer but not on a fresh one: {}", p.msg), "", scen());
                    return;
                }
                (_, Err(p)) => {
                    rep.skipped_panic(&p, json!({"probe": probe}));
                }
                (Ok(a), Ok(b)) => {
                    rep.violation("outcome_differs", "do_tokenize", &format!("after an analysis that failed while its path was resolved: long-lived tokenizer {:?}, fresh tokenizer {:?}", a.err(), b.err()), "", scen());
                    return;
                }
            }
        }
        return;
    }
}

/// A dictionary view whose only input-text plugin queues edits and then fails on a trigger character: the failure
/// happens while the text is being rewritten, with edits pending. (No bundled plugin ever fails; plugins loaded from
/// shared objects may.)
struct FaultyView<'a> {
    inner: &'a sudachi::dic::dictionary::JapaneseDictionary,
    plugins: Vec<Box<dyn sudachi::plugin::input_text::InputTextPlugin + Sync + Send>>,
}

struct FailingPlugin {
    from: char,
    to: String,
    trigger: char,
}

impl sudachi::plugin::input_text::InputTextPlugin for FailingPlugin {
    fn set_up(&mut self, _s: &Value, _c: &sudachi::config::Config, _g: &sudachi::dic::grammar::Grammar) -> sudachi::error::SudachiResult<()> {
        Ok(())
    }
    fn rewrite_impl<'a>(&'a self, input: &sudachi::input_text::InputBuffer, mut edit: sudachi::input_text::InputEditor<'a>) -> sudachi::error::SudachiResult<sudachi::input_text::InputEditor<'a>> {
        for (i, c) in input.current().char_indices() {
            if c == self.from {
                edit.replace_ref(i..i + c.len_utf8(), &self.to);
            } else if c == self.trigger {
                return Err(sudachi::error::SudachiError::InvalidDataFormat(i, "refused character".to_string()));
            }
        }
        Ok(edit)
    }
}

impl<'a> sudachi::analysis::stateless_tokenizer::DictionaryAccess for FaultyView<'a> {
    fn grammar(&self) -> &sudachi::dic::grammar::Grammar<'_> {
        self.inner.grammar()
    }
    fn lexicon(&self) -> &sudachi::dic::lexicon_set::LexiconSet<'_> {
        self.inner.lexicon()
    }
    fn input_text_plugins(&self) -> &[Box<dyn sudachi::plugin::input_text::InputTextPlugin + Sync + Send>] {
        &self.plugins
    }
    fn oov_provider_plugins(&self) -> &[Box<dyn sudachi::plugin::oov::OovProviderPlugin + Sync + Send>] {
        self.inner.oov_provider_plugins()
    }
    fn path_rewrite_plugins(&self) -> &[Box<dyn sudachi::plugin::path_rewrite::PathRewritePlugin + Sync + Send>] {
        self.inner.path_rewrite_plugins()
    }
}

fn faulty_plugin_histories(rep: &mut Report, wi: u64, world: &World, rng: &mut Rng) {
    use sudachi::analysis::stateful_tokenizer::StatefulTokenizer;
    let keys = world.keys();
    let long_key = keys.iter().filter(|k| !k.is_empty() && !k.contains('x') && !k.contains('\u{7f}')).max_by_key(|k| k.len()).cloned().unwrap_or_else(|| "京都".to_string());
    let view = FaultyView { inner: &world.dict, plugins: vec![Box::new(FailingPlugin { from: 'x', to: long_key.clone(), trigger: '\u{7f}' })] };
    type Snap = Vec<(usize, usize, u32, String, String)>;
    let run = |tok: &mut StatefulTokenizer<&FaultyView>, list: &mut MorphemeList<&FaultyView>, text: &str| -> Result<Snap, String> {
        tok.reset().push_str(text);
        tok.do_tokenize().map_err(|e| format!("{:?}", e))?;
        list.collect_results(tok).map_err(|e| format!("{:?}", e))?;
        Ok(list.iter().map(|m| (m.begin(), m.end(), m.word_id().as_raw(), m.surface().to_string(), m.normalized_form().to_string())).collect())
    };
    for _ in 0..3 {
        let mode = MODES[rng.below(3)];
        let mut live = StatefulTokenizer::new(&view, mode);
        let mut live_list = MorphemeList::empty(&view);
        let mut history: Vec<Value> = vec![];
        for _ in 0..10 {
            let fail_now = rng.chance(1, 2);
            let mut text = textgen::text_from_keys(rng, &keys, 4);
            if fail_now {
                // edits are queued for the x's before the refused character is met
                text = format!("{}x{}x\u{7f}{}", rng.pick(&keys), text, rng.pick(&keys));
            } else if rng.chance(1, 2) {
                text.push('x');
            }
            history.push(json!({"op": if fail_now { "analyse a text that the input-text plugin refuses after queuing edits" } else { "analyse" }, "text": clip(&text, 80)}));
            match guard(|| run(&mut live, &mut live_list, &text)) {
                Ok(Ok(_)) => {}
                Ok(Err(_)) => rep.count("analyses_refused_by_an_input_text_plugin_with_edits_pending", fail_now as u64),
                Err(p) => {
                    rep.skipped_panic(&p, json!({"history": history}));
                    return;
                }
            }
            let plen = 1 + rng.below(5);
            let mut probe = textgen::text_from_keys(rng, &keys, plen);
            if rng.chance(1, 3) {
                probe.insert(0, 'x');
            }
            rep.eval();
            let mut fresh = StatefulTokenizer::new(&view, mode);
            let mut fresh_list = MorphemeList::empty(&view);
            let scen = || json!({"world_index": wi, "input_text_plugin": format!("replaces 'x' by {:?}, fails at U+007F", long_key), "history": history, "probe": probe, "mode": mode_name(mode), "world": world.describe(true)});
            let rl = guard(|| run(&mut live, &mut live_list, &probe));
            let rf = guard(|| run(&mut fresh, &mut fresh_list, &probe));
            match (rl, rf) {
                (Ok(Ok(a)), Ok(Ok(b))) => {
                    rep.count("probes_compared_after_input_plugin_failures", 1);
                    if a != b {
                        let k = a.iter().zip(b.iter()).position(|(x, y)| x != y).unwrap_or(a.len().min(b.len()));
                        rep.violation("history_dependence", "probe", &format!("after an input-text plugin failed with edits pending, morpheme {} differs: long-lived {:?} vs fresh {:?} ({} vs {} morphemes)", k, a.get(k), b.get(k), a.len(), b.len()), "", scen());
                        return;
                    }
                }
                (Ok(Err(_)), Ok(Err(_))) => {}
                (Err(p), Ok(_)) => {
                    rep.violation("history_panic", &p.site, &format!("after an input-text plugin failed with edits pending, the probe panics on the long-lived tokenizer but not on a fresh one: {}", p.msg), "", scen());
                    return;
                }
                (_, Err(p)) => rep.skipped_panic(&p, json!({"probe": probe})),
                (Ok(a), Ok(b)) => {
                    rep.violation("outcome_differs", "do_tokenize", &format!("after an input-text plugin failed with edits pending: long-lived tokenizer {:?}, fresh tokenizer {:?}", a.err(), b.err()), "", scen());
                    return;
                }
            }
        }
    }
}

pub fn run(ctx: &Ctx, rep: &mut Report) {
    let n_worlds = ctx.n(240, 12000);
    for wi in ctx.indices(n_worlds) {
        if ctx.out_of_time() {
            rep.notes.push(format!("stopped at world {} (time budget)", wi));
            break;
        }
        let mut rng = Rng::derive(ctx.seed, 0xC10, wi);
        rep.progress_idx(wi, "C10 world");
        let dopts = DictOpts { max_entries: 30, loose_compounds: true, ..DictOpts::default() };
        // every sixth world has no fallback provider: an analysis may then fail for lack of candidates, which is one more kind
        // of failed analysis that must leave the tokenizer usable
        let no_fallback = wi % 6 == 5;
        let regex_dbg = wi % 6 == 4;
        let world: World = match guard(|| {
            let matrix = crate::dictgen::gen_matrix(&mut rng, &dopts);
            let mut sys = crate::dictgen::gen_system(&mut rng, &dopts, &matrix);
            if regex_dbg {
                // cheap words for the tails of the long-run texts, so that the path through the regex word can win
                let nid = matrix.nid() as i64;
                let pool = crate::dictgen::pos_pool();
                for k in ["éééééééééé", "øøø"] {
                    sys.entries.push(crate::model::Entry::simple(k, rng.range(0, nid - 1) as i16, rng.range(0, nid - 1) as i16, -6000, &pool[0]));
                }
            }
            let mut plugins = crate::scen::PluginOpts::random(&mut rng, &matrix, wi % 3 == 0);
            (|_r: &mut Rng, p: &mut crate::scen::PluginOpts| {
            if no_fallback {
                p.no_fallback = true;
                p.mecab = false;
                p.regex = Some(("[a-z]+".to_string(), true, 32));
            }
            if regex_dbg {
                // provider errors in the middle of lattice construction are one more kind of failed analysis
                p.mecab = true;
                p.regex = Some(("[0-9]+|[a-z]+".to_string(), true, 100));
                p.regex_debug = true;
            }
            })(&mut rng, &mut plugins);
            crate::scen::build_world_from(&mut rng, &dopts, matrix, sys, plugins, Place::Owned)
        }) {
            Ok(Ok(w)) => w,
            Ok(Err(e)) => {
                rep.count("worlds_rejected", 1);
                rep.notes.push(format!("world {}: {}", wi, clip(&e, 200)));
                continue;
            }
            Err(p) => {
                rep.skipped_panic(&p, json!({"world": wi, "stage": "build"}));
                continue;
            }
        };
        rep.count("worlds", 1);
        if regex_dbg {
            rep.count("worlds_with_regex_debug_errors_possible", 1);
        }
        let has_pr = world.plugins.join_numeric.is_some() || world.plugins.join_katakana.is_some();
        let keys = world.keys();
        if wi % 2 == 1 {
            truncated_image_histories(rep, wi, &world, &mut rng);
        }
        if wi % 4 == 2 {
            faulty_plugin_histories(rep, wi, &world, &mut rng);
        }
        for hi in 0..6 {
            // one history on a long-lived tokenizer / list pair
            let mut mode = MODES[rng.below(3)];
            let mut bits: u32 = 0x3ff;
            let mut live = Tok::new(&world.dict, mode);
            let mut split_list = MorphemeList::empty(&world.dict);
            // a second result list fed by the same tokenizer: the split list moves between the two
            let mut alt_list = MorphemeList::empty(&world.dict);
            let mut history: Vec<Value> = vec![];
            // the shared split list starts out attached to a result list that was collected under a narrow field
            // request and is never refreshed afterwards
            let mut frozen_list = MorphemeList::empty(&world.dict);
            {
                let compounds: Vec<String> = (0..=world.users.len())
                    .flat_map(|d| world.lexicon_of(d).entries.iter().filter(|e| e.split_a.len() >= 2 || e.split_b.len() >= 2).map(|e| e.key.clone()).collect::<Vec<_>>())
                    .collect();
                if !compounds.is_empty() {
                    let text: String = (0..3).map(|_| rng.pick(&compounds).clone()).collect::<Vec<_>>().join("。");
                    let _ = guard(|| {
                        live.tok.set_subset(subset_of(0x0c4));
                        live.tok.reset().push_str(&text);
                        live.tok.do_tokenize()?;
                        frozen_list.collect_results(&mut live.tok)?;
                        for i in 0..frozen_list.len() {
                            for sm in [Mode::A, Mode::B] {
                                if frozen_list.split_into(sm, i, &mut split_list)? {
                                    return Ok::<_, sudachi::error::SudachiError>(true);
                                }
                            }
                        }
                        Ok(false)
                    });
                    live.tok.set_subset(subset_of(bits));
                    history.push(json!({"op": "prelude: analyse under a narrow request into a list that is kept, split one of its morphemes into the shared split list", "text": text}));
                }
            }
            // what the kept lists reported when they were collected: a result that was returned stays what it was, whatever
            // is done later with other lists (in particular with lists that share its text because they hold its splits)
            let mut frozen_snap = guard(|| snapshot_list(&frozen_list, 0x0c4)).ok().and_then(|r| r.ok());
            let mut alt_snap: Option<(u32, Vec<(usize, usize, u32, Vec<String>)>)> = None;
            let n_ops = 5 + rng.below(36);
            let mut ok_history = true;
            for _ in 0..n_ops {
                let op = rng.below(10);
                match op {
                    8 | 9 => {
                        // the shared split list (target of earlier split_into calls, so attached to the text of the list
                        // that was split) receives a new analysis (8) or a dictionary lookup (9)
                        let text = if op == 8 { gen_text(&mut rng, &keys) } else if keys.is_empty() { String::new() } else { rng.pick(&keys).clone() };
                        history.push(json!({"op": if op == 8 { "analyse_into_the_shared_split_list" } else { "lookup_into_the_shared_split_list" }, "text": clip(&text, 80), "bytes": text.len()}));
                        let r = guard(|| {
                            if op == 8 {
                                live.tok.reset().push_str(&text);
                                live.tok.do_tokenize()?;
                                split_list.collect_results(&mut live.tok)
                            } else {
                                split_list.clear();
                                split_list.lookup(&text, subset_of(bits)).map(|_| ())
                            }
                        });
                        if let Err(p) = r {
                            rep.skipped_panic(&p, json!({"history": history}));
                            ok_history = false;
                            break;
                        }
                        rep.count("analyses_or_lookups_into_a_list_that_shares_a_kept_text", 1);
                        let mut bad: Option<(String, String)> = None;
                        for (name, list, snap, sbits) in [("the list kept since the prelude", &frozen_list, frozen_snap.as_ref(), 0x0c4u32), ("the second result list", &alt_list, alt_snap.as_ref().map(|x| &x.1), alt_snap.as_ref().map(|x| x.0).unwrap_or(0)), ("the tokenizer's own result list", &live.list, None, bits)] {
                            // (the own list has no stored snapshot: its accessors must at least stay callable)
                            match guard(|| snapshot_list(list, sbits)) {
                                Err(p) => bad = Some(("kept_result_panics".to_string(), format!("{}: accessors panic at {} ({})", name, p.site, clip(&p.msg, 120)))),
                                Ok(Ok(now)) => {
                                    if let Some(then) = snap {
                                        rep.count("kept_results_compared_after_reuse_of_a_sharing_list", 1);
                                        if &now != then {
                                            let k = now.iter().zip(then.iter()).position(|(x, y)| x != y).unwrap_or(now.len().min(then.len()));
                                            bad = Some(("kept_result_changed".to_string(), format!("{}: morpheme {} was {:?} when collected, is {:?} now ({} vs {} morphemes)", name, k, then.get(k), now.get(k), then.len(), now.len())));
                                        }
                                    }
                                }
                                Ok(Err(_)) => {}
                            }
                            if bad.is_some() {
                                break;
                            }
                        }
                        if let Some((kind, msg)) = bad {
                            rep.violation(&kind, "MorphemeList", &msg, "", json!({"world_index": wi, "history_index": hi, "history": history, "world": world.describe(true)}));
                            ok_history = false;
                            break;
                        }
                    }
                    0 => {
                        mode = MODES[rng.below(3)];
                        live.tok.set_mode(mode);
                        history.push(json!({"op": "set_mode", "mode": mode_name(mode)}));
                    }
                    1 => {
                        bits = match rng.below(3) {
                            0 => 0x3ff,
                            1 => (rng.next() as u32) & 0x3ff,
                            _ => 1 << rng.below(10),
                        };
                        if has_pr {
                            bits |= PATH_REWRITE_NEEDS;
                        }
                        live.tok.set_subset(subset_of(bits));
                        history.push(json!({"op": "set_subset", "bits": bits}));
                    }
                    3 => {
                        // analyse into the second result list
                        let text = gen_text(&mut rng, &keys);
                        history.push(json!({"op": "analyse_into_second_list", "text": clip(&text, 80), "bytes": text.len()}));
                        let r = guard(|| {
                            live.tok.reset().push_str(&text);
                            live.tok.do_tokenize()?;
                            alt_list.collect_results(&mut live.tok)
                        });
                        match r {
                            Ok(Ok(())) => alt_snap = guard(|| snapshot_list(&alt_list, bits)).ok().and_then(|r| r.ok()).map(|s| (bits, s)),
                            Ok(Err(_)) => alt_snap = None,
                            Err(p) => {
                                rep.skipped_panic(&p, json!({"history": history}));
                                ok_history = false;
                                break;
                            }
                        }
                        // split a morpheme of the second list into the shared split list
                        if alt_list.len() > 0 && rng.chance(2, 3) {
                            let idx = rng.below(alt_list.len());
                            let sm = if rng.chance(1, 2) { Mode::A } else { Mode::B };
                            split_list.clear();
                            let r = guard(|| {
                                alt_list.split_into(sm, idx, &mut split_list)?;
                                let reused: Vec<(u32, [String; 10])> = (0..split_list.len()).map(|k| { let m = split_list.get(k); (m.word_id().as_raw(), field_values(m.get_word_info())) }).collect();
                                let mut fresh_list = MorphemeList::empty(&world.dict);
                                alt_list.split_into(sm, idx, &mut fresh_list)?;
                                let fresh: Vec<(u32, [String; 10])> = (0..fresh_list.len()).map(|k| { let m = fresh_list.get(k); (m.word_id().as_raw(), field_values(m.get_word_info())) }).collect();
                                Ok::<_, sudachi::error::SudachiError>((reused, fresh))
                            });
                            if let Ok(Ok((a, b))) = r {
                                rep.count("splits_into_reused_list_compared", 1);
                                let same = a.len() == b.len() && a.iter().zip(b.iter()).all(|(x, y)| x.0 == y.0 && (0..10).all(|f| bits & (1 << f) == 0 || x.1[f] == y.1[f]));
                                if !same {
                                    rep.violation("history_dependence", "split_into", &format!("splitting morpheme {} of the second list into the shared split list gives {:?}, into a fresh list {:?}", idx, a.iter().map(|x| (x.0, x.1[3].clone(), x.1[5].clone())).collect::<Vec<_>>(), b.iter().map(|x| (x.0, x.1[3].clone(), x.1[5].clone())).collect::<Vec<_>>()), "", json!({"world_index": wi, "history": history, "requested_bits": bits, "world": world.describe(true)}));
                                    ok_history = false;
                                    break;
                                }
                            }
                        }
                    }
                    2 if live.list.len() > 0 => {
                        // on-demand split into a second reused list
                        let idx = rng.below(live.list.len());
                        let sm = if rng.chance(1, 2) { Mode::A } else { Mode::B };
                        if rng.chance(1, 3) {
                            split_list.clear();
                        }
                        let before_len = split_list.len();
                        let r = guard(|| {
                            let flag = live.list.split_into(sm, idx, &mut split_list)?;
                            let reused: Vec<(usize, usize, u32, [String; 10])> = (before_len..split_list.len()).map(|k| { let m = split_list.get(k); (m.begin(), m.end(), m.word_id().as_raw(), field_values(m.get_word_info())) }).collect();
                            let mut fresh_list = MorphemeList::empty(&world.dict);
                            let flag2 = live.list.split_into(sm, idx, &mut fresh_list)?;
                            let fresh: Vec<(usize, usize, u32, [String; 10])> = (0..fresh_list.len()).map(|k| { let m = fresh_list.get(k); (m.begin(), m.end(), m.word_id().as_raw(), field_values(m.get_word_info())) }).collect();
                            Ok::<_, sudachi::error::SudachiError>((flag, flag2, reused, fresh))
                        });
                        history.push(json!({"op": "split_into", "index": idx, "mode": mode_name(sm)}));
                        match r {
                            Err(p) => {
                                rep.skipped_panic(&p, json!({"history": history}));
                                ok_history = false;
                                break;
                            }
                            Ok(Ok((f1, f2, a, b))) => {
                                rep.count("splits_into_reused_list_compared", 1);
                                let same = f1 == f2 && a.len() == b.len() && a.iter().zip(b.iter()).all(|(x, y)| x.0 == y.0 && x.1 == y.1 && x.2 == y.2 && (0..10).all(|f| bits & (1 << f) == 0 || x.3[f] == y.3[f]));
                                if !same {
                                    rep.violation("history_dependence", "split_into", &format!("splitting morpheme {} into a reused list gives {:?}, into a fresh list {:?}", idx, a.iter().map(|x| (x.0, x.1, x.2, x.3[3].clone(), x.3[5].clone())).collect::<Vec<_>>(), b.iter().map(|x| (x.0, x.1, x.2, x.3[3].clone(), x.3[5].clone())).collect::<Vec<_>>()), "", json!({"world_index": wi, "history": history, "requested_bits": bits, "world": world.describe(true)}));
                                    ok_history = false;
                                    break;
                                }
                            }
                            Ok(Err(_)) => {}
                        }
                    }
                    _ => {
                        let text = if regex_dbg && rng.chance(1, 2) { long_run_family(&mut rng) } else { gen_text(&mut rng, &keys) };
                        history.push(json!({"op": "analyse", "text": clip(&text, 80), "bytes": text.len()}));
                        match guard(|| live.run(&text)) {
                            Ok(Ok(())) => rep.count("history_analyses_ok", 1),
                            Ok(Err(e)) => {
                                rep.count("history_analyses_rejected", 1);
                                if regex_dbg && matches!(e, sudachi::error::SudachiError::InvalidDataFormat(..)) {
                                    rep.count("history_analyses_failed_by_a_provider_error", 1);
                                }
                            }
                            Err(p) => {
                                rep.skipped_panic(&p, json!({"history": history}));
                                ok_history = false;
                                break;
                            }
                        }
                    }
                }
                rep.count("history_operations", 1);
                // probe after every operation
                let plen = 1 + rng.below(10);
                let probe = if regex_dbg && rng.chance(1, 2) { long_run_family(&mut rng) } else { textgen::text_from_keys(&mut rng, &keys, plen) };
                rep.eval();
                let mut fresh = Tok::new(&world.dict, mode);
                fresh.tok.set_subset(subset_of(bits));
                let scen = |extra: &str| json!({"world_index": wi, "history_index": hi, "history": history, "probe": probe, "mode": mode_name(mode), "requested_bits": bits, "detail": extra, "world": world.describe(true)});
                let rl = guard(|| live.run(&probe));
                let rf = guard(|| fresh.run(&probe));
                match (rl, rf) {
                    (Ok(Ok(())), Ok(Ok(()))) => {}
                    (Ok(Err(_)), Ok(Err(_))) => continue,
                    (Err(p), Ok(_)) => {
                        rep.violation("history_panic", &p.site, &format!("probe panics on the long-lived tokenizer but not on a fresh one: {}", p.msg), "", scen(""));
                        ok_history = false;
                        break;
                    }
                    (_, Err(p)) => {
                        rep.skipped_panic(&p, json!({"probe": probe}));
                        continue;
                    }
                    (Ok(a), Ok(b)) => {
                        rep.violation("outcome_differs", "do_tokenize", &format!("long-lived tokenizer: {:?}, fresh tokenizer: {:?}", a.err().map(|e| format!("{:?}", e)), b.err().map(|e| format!("{:?}", e))), "", scen(""));
                        ok_history = false;
                        break;
                    }
                }
                let sl = guard(|| snapshot(&live, bits));
                let sf = guard(|| snapshot(&fresh, bits));
                match (sl, sf) {
                    (Ok(Ok(a)), Ok(Ok(b))) => {
                        rep.count("probes_compared", 1);
                        // the tokenizer without state (a new analyser per call, all fields) is one more "fresh" reference
                        if hi % 2 == 0 && (!has_pr || bits & PATH_REWRITE_NEEDS == PATH_REWRITE_NEEDS) {
                            use sudachi::analysis::stateless_tokenizer::StatelessTokenizer;
                            use sudachi::analysis::Tokenize;
                            let st = guard(|| StatelessTokenizer::new(&world.dict).tokenize(&probe, mode, false).map_err(|e| format!("{:?}", e)).and_then(|l| snapshot_list(&l, bits)));
                            match st {
                                Ok(Ok(c)) => {
                                    rep.count("probes_compared_with_stateless_tokenizer", 1);
                                    if c != b {
                                        let k = c.iter().zip(b.iter()).position(|(x, y)| x != y).unwrap_or(c.len().min(b.len()));
                                        rep.violation("history_dependence", "StatelessTokenizer::tokenize", &format!("morpheme {} differs: stateless tokenizer {:?} vs freshly created stateful tokenizer {:?} ({} vs {} morphemes)", k, c.get(k), b.get(k), c.len(), b.len()), "", scen(""));
                                        ok_history = false;
                                        break;
                                    }
                                }
                                Ok(Err(e)) => {
                                    rep.violation("outcome_differs", "StatelessTokenizer::tokenize", &format!("the stateful tokenizer analyses the probe, the stateless one reports {}", e), "", scen(""));
                                    ok_history = false;
                                    break;
                                }
                                Err(p) => {
                                    rep.violation("history_panic", &p.site, &format!("the stateless tokenizer panics on a probe that a fresh stateful tokenizer analyses: {}", p.msg), "", scen(""));
                                    ok_history = false;
                                    break;
                                }
                            }
                        }
                        if a != b {
                            let k = a.iter().zip(b.iter()).position(|(x, y)| x != y).unwrap_or(a.len().min(b.len()));
                            rep.violation("history_dependence", "probe", &format!("morpheme {} differs: long-lived {:?} vs fresh {:?} ({} vs {} morphemes)", k, a.get(k), b.get(k), a.len(), b.len()), "", scen(""));
                            ok_history = false;
                            break;
                        }
                    }
                    (Err(p), Ok(_)) => {
                        rep.violation("history_panic", &p.site, &format!("accessors panic on the long-lived list only: {}", p.msg), "", scen(""));
                        ok_history = false;
                        break;
                    }
                    _ => {}
                }
            }
            // at the end the long-lived tokenizer is consumed the way the stateless API consumes a fresh one
            if ok_history {
                let probe = if rng.chance(1, 3) { String::new() } else { textgen::text_from_keys(&mut rng, &keys, 5) };
                let Tok { tok: mut lt, .. } = live;
                let a = guard(|| {
                    lt.reset().push_str(&probe);
                    lt.do_tokenize().map_err(|e| format!("{:?}", e))?;
                    lt.into_morpheme_list().map_err(|e| format!("{:?}", e)).and_then(|l| snapshot_list(&l, bits))
                });
                let mut fresh = Tok::new(&world.dict, mode);
                fresh.tok.set_subset(subset_of(bits));
                let b = guard(|| fresh.run(&probe).map_err(|e| format!("{:?}", e)).and_then(|_| snapshot(&fresh, bits)));
                rep.count("tokenizers_consumed_with_into_morpheme_list", 1);
                let scen = || json!({"world_index": wi, "history_index": hi, "history": history, "probe": probe, "mode": mode_name(mode), "requested_bits": bits, "world": world.describe(true)});
                match (a, b) {
                    (Ok(Ok(x)), Ok(Ok(y))) => {
                        if x != y {
                            rep.violation("history_dependence", "into_morpheme_list", &format!("after the history the long-lived tokenizer gives {:?}, a fresh one {:?}", x.iter().take(4).collect::<Vec<_>>(), y.iter().take(4).collect::<Vec<_>>()), "", scen());
                            ok_history = false;
                        }
                    }
                    (Ok(Err(_)), Ok(Err(_))) => {}
                    (Ok(Err(e)), Ok(Ok(_))) => {
                        rep.violation("outcome_differs", "into_morpheme_list", &format!("after the history the long-lived tokenizer fails ({}), a fresh one analyses the probe", clip(&e, 120)), "", scen());
                        ok_history = false;
                    }
                    (Err(p), Ok(_)) => {
                        rep.violation("history_panic", &p.site, &format!("into_morpheme_list on the long-lived tokenizer panics: {}", p.msg), "", scen());
                        ok_history = false;
                    }
                    _ => {}
                }
            }
            if ok_history {
                rep.count("histories_completed", 1);
                rep.nontrivial(fnv(format!("{}|{}|{:?}", wi, hi, history).as_bytes()));
                if rep.want_sample() && history.len() > 8 {
                    rep.sample(json!({"history": history.iter().take(12).collect::<Vec<_>>()}));
                }
            }
        }
    }
}
