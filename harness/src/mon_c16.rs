//! C16 — sentence splitting partitions the text and breaks only after terminators.

use serde_json::json;
use sudachi::sentence_splitter::{SentenceSplitter, SplitSentences};

use crate::dictgen::{self, DictOpts};
use crate::env::Place;
use crate::model::{Entry, Lexicon};
use crate::report::{clip, guard, Report};
use crate::rng::{fnv, Rng};
use crate::scen::{build_world_from, PluginOpts, World};
use crate::Ctx;

const PERIODS: &str = "。？！♪…?!";
const DOTS: &str = ".．";
const COMMAS: &str = ",，、";
const OPENERS: &str = "({｛[（「【『［≪〔“";
const CLOSERS: &str = ")}]）」｝】』］〕≫”";
const ALNUM_EXTRA: &str = "〇一二三四五六七八九十百千万億兆";

fn is_alnum(c: char) -> bool {
    c.is_ascii_alphanumeric() || ('ａ'..='ｚ').contains(&c) || ('Ａ'..='Ｚ').contains(&c) || ('０'..='９').contains(&c) || ALNUM_EXTRA.contains(c)
}

fn is_term(c: char) -> bool {
    PERIODS.contains(c)
}

fn is_dot(c: char) -> bool {
    DOTS.contains(c)
}

/// untyped bracket level with the closing bracket ignored at level 0
fn level(s: &str) -> usize {
    let mut l = 0usize;
    for c in s.chars() {
        if OPENERS.contains(c) {
            l += 1;
        } else if CLOSERS.contains(c) && l > 0 {
            l -= 1;
        }
    }
    l
}

/// occurrences (start, end) of multi-character lexicon words in the text
fn word_occurrences(text: &str, words: &[String]) -> Vec<(usize, usize)> {
    let mut v = vec![];
    for w in words {
        if w.chars().count() < 2 {
            continue;
        }
        let mut from = 0;
        while let Some(i) = text[from..].find(w.as_str()) {
            let s = from + i;
            v.push((s, s + w.len()));
            from = s + text[s..].chars().next().map(|c| c.len_utf8()).unwrap_or(1);
            if from >= text.len() {
                break;
            }
        }
    }
    v
}

fn p2_ok(sentence: &str) -> bool {
    // maximal suffix of closers / commas / terminators / dots / middle dots
    let chars: Vec<char> = sentence.chars().collect();
    let mut i = chars.len();
    while i > 0 && (CLOSERS.contains(chars[i - 1]) || COMMAS.contains(chars[i - 1]) || is_term(chars[i - 1]) || is_dot(chars[i - 1]) || chars[i - 1] == '・') {
        i -= 1;
    }
    let tail: String = chars[i..].iter().collect();
    if tail.chars().any(|c| is_term(c) || is_dot(c)) || tail.contains("・・・") {
        return true;
    }
    let head: String = chars[..i].iter().collect();
    let lower = head.to_lowercase();
    lower.ends_with("<br><br>")
}

struct Missed {
    p: usize,
    tail_end: usize,
    within_window: bool,
}

/// conservative search for a terminator that must have ended a sentence but did not
fn first_missed_break(sentence: &str, abs: usize, text: &str, occ: &[(usize, usize)], limit: usize, with_checker: bool) -> Option<Missed> {
    let idx: Vec<(usize, char)> = sentence.char_indices().collect();
    let n = idx.len();
    let mut k = 0;
    while k < n {
        let (p, c) = idx[k];
        // an ellipsis written with middle dots: three or more of them
        let mut cd = 0;
        if c == '・' {
            while k + cd < n && idx[k + cd].1 == '・' {
                cd += 1;
            }
            if cd < 3 {
                k += cd;
                continue;
            }
        }
        let strong = is_term(c) || cd >= 3;
        let dot_ok = is_dot(c) && (k == 0 || !is_alnum(idx[k - 1].1));
        if !(strong || dot_ok) {
            k += 1;
            continue;
        }
        // the run of terminators / dots
        let mut e = k + cd.max(1);
        while e < n && (is_term(idx[e].1) || is_dot(idx[e].1)) {
            e += 1;
        }
        let run_end_k = e;
        if !strong {
            // a lone period followed by alphanumerics or a comma is no terminator
            if e == k + 1 && e < n && (is_alnum(idx[e].1) || COMMAS.contains(idx[e].1)) {
                k = e;
                continue;
            }
        }
        let match_end = if e < n { idx[e].0 } else { sentence.len() };
        // tail: closers, commas, terminators
        while e < n && (CLOSERS.contains(idx[e].1) || COMMAS.contains(idx[e].1) || is_term(idx[e].1)) {
            e += 1;
        }
        let tail_end = if e < n { idx[e].0 } else { sentence.len() };
        let next_k = e;
        if tail_end >= sentence.len() {
            return None; // the sentence ends here: nothing was missed
        }
        let mut demand = level(&sentence[..match_end]) == 0;
        if demand {
            let next = idx[next_k].1;
            // quoting particles: と っ で(す). や and の only matter after an itemisation header, which needs a period
            if "とっで".contains(next) || (!strong && "やの".contains(next)) {
                demand = false;
            }
        }
        if demand && with_checker {
            let (gp, gt) = (abs + p, abs + tail_end);
            if occ.iter().any(|(ws, we)| *ws < gt && *we > gp) {
                demand = false;
            }
        }
        // periods inside alphanumerics after the run (e.g. "1.5") never reach here; itemisation
        // header: the whole remaining window being "<alnum><dot>" is excluded by the lookbehind rule
        if demand {
            let _ = text;
            let _ = run_end_k;
            // everything the detector needs (the tail and one more character) must be inside its window
            let within = next_k + 1 <= limit;
            return Some(Missed { p, tail_end, within_window: within });
        }
        k = next_k.max(k + 1);
    }
    None
}

fn gen_lexicon(rng: &mut Rng, nid: i64) -> (Lexicon, Vec<String>) {
    let pool = dictgen::pos_pool();
    let mut lex = Lexicon::default();
    // (the last ones: words of 11-30 bytes made of 1- and 2-byte characters with the terminator late in the word)
    let base = ["あい", "うえ", "東京", "都", "です", "と", "A", "1", "モーニング娘。", "な。な", "Yahoo!", "。", "！", "?", "。」", "い。", "」x", "…と", "a.b", "<br>", "・・", "OK!", "a?", "x.", "ﾅ!", "1。",
        "EverybodyWantsSome!!", "Supercalifragilistic!Expo", "Здравствуйте!Мир", "abcdefghijklmnopqrstuvwxyz12.3", "ääääääääääää?ä",
        // words that go on for more than 30 bytes after the terminator they contain
        "モーニング娘。コンサートツアー二〇〇三春", "Yahoo!JapanCorporationHeadquartersBuildingTokyo", "東京！大阪名古屋福岡札幌仙台広島京都神戸"];
    for (i, w) in base.iter().enumerate() {
        if i < 3 || rng.chance(1, 2) {
            lex.entries.push(Entry::simple(w, rng.range(0, nid - 1) as i16, rng.range(0, nid - 1) as i16, rng.range(0, 5000) as i16, &pool[i % pool.len()]));
        }
    }
    let words = lex.entries.iter().map(|e| e.key.clone()).collect();
    (lex, words)
}

/// User dictionaries over the system lexicon: some of its words moved there, plus words that extend a system
/// word across a terminator (the longer word lives only in a user dictionary)
fn gen_users(rng: &mut Rng, nid: i64, sys: &mut Lexicon, words: &mut Vec<String>) -> Vec<Lexicon> {
    let pool = dictgen::pos_pool();
    let n = 1 + rng.below(3);
    let mut users: Vec<Lexicon> = (0..n).map(|_| Lexicon { entries: vec![], user: true }).collect();
    let mut k = 3;
    while k < sys.entries.len() {
        if rng.chance(1, 3) {
            let e = sys.entries.remove(k);
            users[rng.below(n)].entries.push(e);
        } else {
            k += 1;
        }
    }
    for w in ["東京。府", "あい！う", "うえ?", "東京！", "あい。", "都。。", "です。よ"] {
        if rng.chance(1, 2) {
            users[rng.below(n)].entries.push(Entry::simple(w, rng.range(0, nid - 1) as i16, rng.range(0, nid - 1) as i16, rng.range(0, 5000) as i16, rng.pick(&pool)));
            words.push(w.to_string());
        }
    }
    users.retain(|u| !u.entries.is_empty());
    users
}

fn gen_text(rng: &mut Rng, words: &[String], max_parts: usize) -> String {
    let mut s = String::new();
    if rng.chance(1, 12) {
        // texts whose only terminators are middle-dot ellipses (three or more '・'): no other terminator, dot or tag anywhere
        for _ in 0..1 + rng.below(max_parts.max(1)) {
            match rng.below(5) {
                0 | 1 => s.push_str(rng.s(&["あい", "うえお", "東京", "です", "ABC", "x", "12", "京", "かきく", "そうですか", "わかりました"])),
                2 => s.push_str(rng.s(&["・・・", "・・・・", "・・・・・・"])),
                3 => s.push_str(rng.s(&["・", "・・", "と", "、", "の"])),
                _ => s.push_str(rng.s(&["「", "」", "（", "）", "や", " "])),
            }
        }
        return s;
    }
    for _ in 0..rng.below(max_parts + 1) {
        match rng.below(16) {
            0..=3 => s.push_str(rng.s(&["あい", "うえお", "東京", "です", "ABC", "x", "12", "京", "かきく", " "])),
            4 | 5 => s.push_str(rng.s(&["。", "！", "？", "!", "?", "♪", "…", "。。", "！？", "?!"])),
            6 => s.push_str(rng.s(&[".", "．", "1.", "a．", "3.14", "1.5", "A.B", ". ", "１．"])),
            7 => s.push(*rng.pick(&OPENERS.chars().collect::<Vec<_>>())),
            8 => s.push(*rng.pick(&CLOSERS.chars().collect::<Vec<_>>())),
            9 => s.push_str(rng.s(&["と", "っ", "です", "や", "の", "で"])),
            10 => s.push_str(rng.s(&["<br>", "<br><br>", "<BR><BR>", "<br><BR><br>", "<Br><Br>"])),
            11 => s.push_str(rng.s(&["・", "・・", "・・・", "・・・・"])),
            12 if rng.chance(1, 2) => s.push_str(rng.s(&[",", "，", "、", "\\", "\\n", "\\server"])),
            // quotation marks and angle brackets that are NOT in the statement's bracket pairs: they neither open nor
            // close anything and are no commas
            12 => s.push_str(rng.s(&["\"", "\"", "'", "〝", "〟", "<", ">", "＜", "＞", "«", "»", "‹", "｢", "｣", "〈", "〉", "《", "》"])),
            13 | 14 if !words.is_empty() => s.push_str(rng.pick(words).as_str()),
            _ => s.push_str(crate::textgen::pick_char(rng)),
        }
    }
    s
}

fn check_text(world: &World, words: &[String], text: &str, limit: Option<usize>, with_checker: bool, probe: &str, rep: &mut Report) {
    rep.eval();
    let lim = limit.unwrap_or(4096);
    let scen = || json!({"text": clip(text, 30000), "text_chars": text.chars().count(), "limit": limit, "with_checker": with_checker, "lexicon_words": words});
    let res = guard(|| {
        let base = match limit {
            Some(l) => SentenceSplitter::with_limit(l),
            None => SentenceSplitter::new(),
        };
        let splitter = if with_checker { base.with_checker(world.dict.lexicon()) } else { base };
        let mut out: Vec<(usize, usize, String)> = vec![];
        let mut steps = 0usize;
        for (r, s) in splitter.split(text) {
            out.push((r.start, r.end, s.to_string()));
            steps += 1;
            if steps > text.len() + 1 {
                return Err(out);
            }
        }
        Ok(out)
    });
    let sentences = match res {
        Err(p) => {
            rep.violation("panic", &p.site, &p.msg, probe, scen());
            return;
        }
        Ok(Err(_)) => {
            rep.violation("non_terminating", "SentenceIter", "the iterator produced more items than the text has bytes", probe, scen());
            return;
        }
        Ok(Ok(s)) => s,
    };
    rep.count("sentences_checked", sentences.len() as u64);
    // P1: partition
    let mut pos = 0;
    for (i, (a, b, s)) in sentences.iter().enumerate() {
        if *a != pos || b <= a || *b > text.len() || !text.is_char_boundary(*a) || !text.is_char_boundary(*b) || &text[*a..*b] != s {
            rep.violation("partition", "SentenceIter", &format!("sentence {} has range {}..{} after position {} (text length {})", i, a, b, pos, text.len()), probe, scen());
            return;
        }
        pos = *b;
    }
    if pos != text.len() {
        rep.violation("partition", "SentenceIter", &format!("sentences end at {} of {}", pos, text.len()), probe, scen());
        return;
    }
    let occ = if with_checker { word_occurrences(text, words) } else { vec![] };
    let nsent = sentences.len();
    for (i, (a, b, s)) in sentences.iter().enumerate() {
        let last = i + 1 == nsent;
        if !last {
            // P2
            if !p2_ok(s) {
                rep.violation("break_without_terminator", "P2", &format!("sentence {} {:?} does not end with a terminator", i, clip(s, 60)), probe, scen());
                return;
            }
            // P3: the break follows the tail; the level is taken where the detector takes it (end of the terminator run)
            let chars: Vec<(usize, char)> = s.char_indices().collect();
            let mut e = chars.len();
            while e > 0 && (CLOSERS.contains(chars[e - 1].1) || COMMAS.contains(chars[e - 1].1)) {
                e -= 1;
            }
            // e now follows a terminator (or a tail of mixed closers/terminators): scan back over closers/commas/terminators
            // and evaluate the level at every terminator-run end inside the tail; at least one must be 0
            let mut ok = false;
            let mut j = chars.len();
            loop {
                let cut = if j < chars.len() { chars[j].0 } else { s.len() };
                if j > 0 && (is_term(chars[j - 1].1) || is_dot(chars[j - 1].1) || chars[j - 1].1 == '・' || chars[j - 1].1 == '>') {
                    if level(&s[..cut]) == 0 {
                        ok = true;
                        break;
                    }
                }
                if j == 0 {
                    break;
                }
                let c = chars[j - 1].1;
                if !(CLOSERS.contains(c) || COMMAS.contains(c) || is_term(c) || is_dot(c) || c == '・') {
                    break;
                }
                j -= 1;
            }
            let _ = e;
            if !ok {
                rep.violation("break_inside_brackets", "P3", &format!("sentence {} {:?} ends inside an unclosed bracket pair", i, clip(s, 60)), probe, scen());
                return;
            }
            // P4: the break is not inside / at the end of a multi-character lexicon word containing the terminator
            if with_checker {
                for (ws, we) in &occ {
                    if *ws < *b && *b <= *we && text[*ws..*b].chars().any(|c| is_term(c) || is_dot(c)) {
                        rep.violation("break_inside_word", "P4", &format!("sentence {} ends at {} inside the dictionary word {:?}", i, b, &text[*ws..*we]), probe, scen());
                        return;
                    }
                }
            }
        }
        // P5: converse
        if let Some(m) = first_missed_break(s, *a, text, &occ, lim, with_checker) {
            let msg = format!("sentence {} {:?}: the terminator at byte {} (tail ends at {}) is followed by more text but did not end the sentence", i, clip(s, 60), m.p, m.tail_end);
            if m.within_window {
                rep.violation("missed_break", "P5", &msg, probe, scen());
            } else {
                rep.violation("missed_break_beyond_window", "P5", &msg, probe, scen());
            }
            return;
        }
    }
    if nsent >= 2 {
        rep.nontrivial(fnv(format!("{}|{:?}|{}", text, limit, with_checker).as_bytes()));
        rep.count("texts_with_several_sentences", 1);
    }
    if rep.want_sample() && nsent >= 3 {
        rep.sample(json!({"text": clip(text, 120), "limit": limit, "with_checker": with_checker, "sentences": sentences.iter().map(|s| clip(&s.2, 40)).collect::<Vec<_>>()}));
    }
}

pub fn run(ctx: &Ctx, rep: &mut Report) {
    let n_worlds = ctx.n(320, 16000);
    for wi in ctx.indices(n_worlds) {
        if ctx.out_of_time() {
            rep.notes.push(format!("stopped at world {} (time budget)", wi));
            break;
        }
        let mut rng = Rng::derive(ctx.seed, 0xC16, wi);
        rep.progress_idx(wi, "C16 lexicon");
        let dopts = DictOpts { splits: false, ..DictOpts::default() };
        let matrix = dictgen::gen_matrix(&mut rng, &dopts);
        let (mut lex, mut words) = gen_lexicon(&mut rng, matrix.nid() as i64);
        // every second lexicon is layered: part of the words (and longer words over system words) in user dictionaries
        let users = if wi % 2 == 1 { Some(gen_users(&mut rng, matrix.nid() as i64, &mut lex, &mut words)) } else { None };
        if users.as_ref().map(|u| !u.is_empty()).unwrap_or(false) {
            rep.count("lexicons_with_user_dictionaries", 1);
        }
        let world = match guard(|| crate::scen::build_world_users(&mut rng, &dopts, matrix, lex, users, PluginOpts::none(), Place::Owned)) {
            Ok(Ok(w)) => w,
            Ok(Err(e)) => {
                rep.notes.push(format!("world {}: {}", wi, clip(&e, 200)));
                continue;
            }
            Err(p) => {
                rep.skipped_panic(&p, json!({"world": wi}));
                continue;
            }
        };
        rep.count("lexicons", 1);
        for _ in 0..60 {
            let text = gen_text(&mut rng, &words, 14);
            if text.is_empty() {
                continue;
            }
            let nchars = text.chars().count();
            for with_checker in [false, true] {
                // default window, a window larger than the text, and a small window
                check_text(&world, &words, &text, None, with_checker, "", rep);
                check_text(&world, &words, &text, Some(nchars + 1 + rng.below(100)), with_checker, "", rep);
                let small = 1 + rng.below(nchars.max(1));
                check_text_small(&world, &words, &text, small, with_checker, rep);
            }
        }
        if wi % 16 == 0 {
            // a text longer than the default window, with terminators well inside the window
            let mut long = String::new();
            while long.chars().count() < 9000 {
                long.push_str(&gen_text(&mut rng, &words, 10));
                long.push_str("あ。");
            }
            check_text_small(&world, &words, &long, 4096, true, rep);
            rep.count("texts_longer_than_the_window", 1);
            // a window larger than the default one must really be used: the first terminator lies beyond 4096 characters
            let far = format!("{}。{}", "あ".repeat(4500 + rng.below(1000)), gen_text(&mut rng, &words, 8));
            check_text(&world, &words, &far, Some(16384), wi % 32 == 0, "", rep);
            rep.count("texts_needing_a_window_larger_than_default", 1);
        }
    }
    if ctx.shard == 0 && ctx.only.is_none() {
        probes(ctx, rep);
    }
}

/// Small windows: the converse clause is only judged when the window saw an acceptable boundary
/// (known finding D12 otherwise), so only P1-P4 plus window-internal P5 are checked.
fn check_text_small(world: &World, words: &[String], text: &str, limit: usize, with_checker: bool, rep: &mut Report) {
    let before = rep.violation_count;
    let n_before = rep.violations.len();
    check_text(world, words, text, Some(limit), with_checker, "", rep);
    // drop what belongs to the D12 region: generated only by its labelled probe
    if rep.violation_count > before {
        let is_d12 = rep.violations.len() > n_before && rep.violations.last().map(|v| v["kind"] == "missed_break_beyond_window").unwrap_or(false);
        if is_d12 {
            rep.violations.pop();
            rep.violation_count -= 1;
            rep.count("small_window_cases_in_the_D12_region_not_judged", 1);
        }
    }
    rep.count("small_window_runs", 1);
}

fn probes(_ctx: &Ctx, rep: &mut Report) {
    let mut rng = Rng::new(16);
    let dopts = DictOpts { splits: false, ..DictOpts::default() };
    let matrix = dictgen::gen_matrix(&mut rng, &dopts);
    let pool = dictgen::pos_pool();
    let mut lex = Lexicon::default();
    for (i, w) in ["京都", "東京", "。"].iter().enumerate() {
        lex.entries.push(Entry::simple(w, 0, 0, 100, &pool[i]));
    }
    let words: Vec<String> = lex.entries.iter().map(|e| e.key.clone()).collect();
    let world = match build_world_from(&mut rng, &dopts, matrix, lex, PluginOpts::none(), Place::Owned) {
        Ok(w) => w,
        Err(e) => {
            rep.notes.push(format!("probe world: {}", e));
            return;
        }
    };
    // D11: the terminator is itself a one-character dictionary entry
    rep.progress_idx(u64::MAX - 11, "probe D11");
    check_text(&world, &words, "京都。東京。", None, true, "D11", rep);
    // D12: the first window holds no acceptable boundary
    rep.progress_idx(u64::MAX - 12, "probe D12");
    let t12 = format!("{}。い", "あ".repeat(4096));
    check_text(&world, &words, &t12, None, false, "D12", rep);
    // D13: huge window
    rep.progress_idx(u64::MAX - 13, "probe D13");
    let t13 = format!("{}。い", "あ".repeat(200000));
    check_text(&world, &words, &t13, Some(1_000_000), false, "D13", rep);
    rep.count("probe_scenarios", 3);
}
