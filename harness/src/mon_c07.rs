//! C07 — text normalisation is the specified context-free function of the input.

use serde_json::json;
use std::collections::HashMap;
use sudachi::analysis::stateless_tokenizer::DictionaryAccess;
use sudachi::dic::category_type::CategoryType;
use sudachi::input_text::InputBuffer;

use crate::dictgen::{self, DictOpts};
use crate::env::Place;
use crate::normref::{self, RewriteTable};
use crate::report::{clip, guard, Report};
use crate::rng::{fnv, Rng};
use crate::scen::{build_world_from, PluginOpts, Tok, World};
use crate::textgen;
use crate::Ctx;
use sudachi::analysis::Mode;

fn apply_plugin(world: &World, idx: usize, text: &str) -> Result<String, String> {
    let mut b = InputBuffer::from(text);
    world.dict.input_text_plugins()[idx].rewrite(&mut b).map_err(|e| format!("{:?}", e))?;
    Ok(b.current().to_string())
}

const TABLE_CHARS: &[&str] = &[
    "a", "b", "c", "A", "B", "Ａ", "ａ", "ｶ", "ﾞ", "ガ", "あ", "ア", "㍿", "Ⅳ", "ⅳ", "ß", "é", "e", "\u{301}", "々", "京", "1", "１", "-", "ー", "株", "㈱", "é",
];

fn gen_table(rng: &mut Rng) -> (RewriteTable, String) {
    let mut t = RewriteTable::default();
    let mut order: Vec<String> = vec![];
    let n_ignore = rng.below(6);
    for _ in 0..n_ignore {
        let c = rng.s(TABLE_CHARS).chars().next().unwrap();
        t.ignore.insert(c);
    }
    let n_keys = rng.below(10);
    for _ in 0..n_keys {
        let key: String = match rng.below(4) {
            0 if !order.is_empty() => {
                // extension of an existing key (prefix-related keys)
                format!("{}{}", rng.pick(&order), rng.s(TABLE_CHARS))
            }
            1 if !order.is_empty() => {
                // proper prefix of an existing key
                let k: Vec<char> = rng.pick(&order).chars().collect();
                k[..1.max(k.len() - 1)].iter().collect()
            }
            _ => (0..1 + rng.below(3)).map(|_| rng.s(TABLE_CHARS)).collect(),
        };
        // '#' starts a comment only at the beginning of a line: inside a key or a value it is an ordinary character
        let key = if rng.chance(1, 6) { format!("{}#{}", key, if rng.chance(1, 2) { "" } else { rng.s(TABLE_CHARS) }) } else { key };
        if key.is_empty() || key.starts_with('#') || t.replace.contains_key(&key) || key.chars().any(|c| c.is_whitespace()) {
            continue;
        }
        let val: String = (0..1 + rng.below(3)).map(|_| rng.s(&["x", "Y", "ガ", "株式会社", "z", "あ", "Ａ", "0", "#", "(有)#"])).collect();
        t.max_key_chars = t.max_key_chars.max(key.chars().count());
        t.replace.insert(key.clone(), val);
        order.push(key);
    }
    let mut text = t.to_text(&order);
    // the last line need not end with a line break
    if rng.chance(1, 4) {
        while text.ends_with('\n') {
            text.pop();
        }
    }
    (t, text)
}

fn gen_input(rng: &mut Rng, t: &RewriteTable, keys: &[String]) -> String {
    let mut s = String::new();
    for _ in 0..rng.below(10) {
        match rng.below(6) {
            0 | 1 if !keys.is_empty() => s.push_str(rng.pick(keys).as_str()),
            2 => s.push_str(rng.s(TABLE_CHARS)),
            3 => s.push_str(rng.s(textgen::EXPANDING)),
            4 => {
                if let Some(c) = t.ignore.iter().next() {
                    s.push(*c);
                }
            }
            _ => s.push_str(textgen::pick_char(rng)),
        }
    }
    s
}

fn sweep_scalars(world: &World, table: &RewriteTable, label: &str, rep: &mut Report, lo: u32, hi: u32) {
    let mut buf = [0u8; 4];
    for cp in lo..hi {
        let c = match char::from_u32(cp) {
            Some(c) => c,
            None => continue,
        };
        let s: &str = c.encode_utf8(&mut buf);
        let got = match guard(|| apply_plugin(world, 0, s)) {
            Ok(Ok(g)) => g,
            Ok(Err(e)) => {
                rep.violation("rewrite_error", "DefaultInputTextPlugin", &format!("U+{:04X}: {}", cp, e), "", json!({"table": label, "code_point": cp}));
                continue;
            }
            Err(p) => {
                rep.violation("rewrite_panic", &p.site, &format!("U+{:04X}: {}", cp, p.msg), "", json!({"table": label, "code_point": cp}));
                continue;
            }
        };
        let exp = normref::normalize(table, s);
        let ok = got == exp || (normref::is_titlecase(c) && {
            // statement does not say whether title-case letters are "lower-cased"
            let alt: String = c.to_lowercase().collect();
            let mut o = String::new();
            for ch in alt.chars() {
                normref::norm_char(table, ch, &mut o);
            }
            got == o
        });
        rep.count("scalar_values_checked", 1);
        if exp != s {
            rep.count("scalar_values_changed_by_normalisation", 1);
        }
        if !ok {
            rep.violation("normalisation", "DefaultInputTextPlugin", &format!("U+{:04X} alone: expected {:?}, got {:?}", cp, exp, got), "", json!({"table": label, "code_point": cp}));
        }
    }
}

pub fn run(ctx: &Ctx, rep: &mut Report) {
    let std_text = std::fs::read_to_string(crate::env::repo_root().join("resources/rewrite.def")).unwrap_or_default();
    // --- exhaustive single-character sweep, split over the shards by code-point blocks
    {
        let mut rng = Rng::derive(ctx.seed, 0xC07, 0);
        let dopts = DictOpts { splits: false, ..DictOpts::default() };
        let tables: Vec<(&str, String)> = if ctx.quick() {
            vec![("resources/rewrite.def", std_text.clone())]
        } else {
            vec![("resources/rewrite.def", std_text.clone()), ("empty table", "# empty\n".to_string()), ("ignore-only table", "々\nＡ\nｶ\n㍿\n".to_string())]
        };
        if ctx.only.is_none() {
            for (label, text) in &tables {
                rep.progress_idx(u64::MAX - 7, "C07 scalar sweep");
                let matrix = dictgen::gen_matrix(&mut rng, &dopts);
                let sys = dictgen::gen_system(&mut rng, &dopts, &matrix);
                let mut p = PluginOpts::none();
                p.default_input = true;
                p.rewrite_def = Some(text.clone());
                let world = match build_world_from(&mut rng, &dopts, matrix, sys, p, Place::Owned) {
                    Ok(w) => w,
                    Err(e) => {
                        rep.notes.push(format!("sweep world not built: {}", e));
                        continue;
                    }
                };
                let table = RewriteTable::parse(text);
                let block = 0x110000u32 / ctx.nshards as u32 + 1;
                let lo = block * ctx.shard as u32;
                let hi = (lo + block).min(0x110000);
                sweep_scalars(&world, &table, label, rep, lo, hi);
                rep.count("exhaustive_scalar_sweeps_shards", 1);
            }
        }
    }
    // --- random tables x strings; prolonged marks; yomigana
    let n_worlds = ctx.n(480, 16000);
    for wi in ctx.indices(n_worlds) {
        if ctx.out_of_time() {
            rep.notes.push(format!("stopped at world {} (time budget)", wi));
            break;
        }
        let mut rng = Rng::derive(ctx.seed, 0xC07A, wi);
        rep.progress_idx(wi, "C07 world");
        let dopts = DictOpts { splits: false, max_entries: 12, ..DictOpts::default() };
        let matrix = dictgen::gen_matrix(&mut rng, &dopts);
        let sys = dictgen::gen_system(&mut rng, &dopts, &matrix);
        let (table, table_text) = if wi % 6 == 0 { (RewriteTable::parse(&std_text), std_text.clone()) } else { gen_table(&mut rng) };
        let mut p = PluginOpts::none();
        p.default_input = true;
        p.prolonged = true;
        p.yomigana = true;
        p.rewrite_def = Some(table_text.clone());
        let mark_pool = ['ー', '-', '⁓', '〜', '〰', '~', '^', ']', '\\', 'ｰ'];
        let mut marks: Vec<char> = vec![];
        for _ in 0..1 + rng.below(4) {
            let c = *rng.pick(&mark_pool);
            if !marks.contains(&c) {
                marks.push(c);
            }
        }
        let repl = rng.s(&["ー", "-", "ーー", "x"]).to_string();
        p.prolonged_cfg = Some((marks.clone(), repl.clone()));
        let lbr: Vec<char> = if rng.chance(1, 2) { vec!['(', '（'] } else { vec!['[', '「', '('] };
        let rbr: Vec<char> = if rng.chance(1, 2) { vec![')', '）'] } else { vec![']', '」'] };
        let maxy = 1 + rng.below(5);
        p.yomigana_cfg = Some((lbr.clone(), rbr.clone(), maxy));
        // every third world: the class table also files ideographs outside the basic plane (4 bytes in UTF-8) and a
        // few two-byte letters under KANJI; the yomigana rule speaks of the class, not of a byte width
        if wi % 3 == 1 {
            if let Ok(base) = std::fs::read_to_string(crate::env::repo_root().join("resources").join("char.def")) {
                p.char_def = Some(format!("{}\n0x20000..0x2A6DF KANJI\n0x00E0..0x00E5 KANJI\n", base.trim_end()));
                rep.count("tables_with_kanji_of_other_byte_widths", 1);
            }
        }
        let world = match guard(|| build_world_from(&mut rng, &dopts, matrix, sys, p, Place::Owned)) {
            Ok(Ok(w)) => w,
            Ok(Err(e)) => {
                rep.count("worlds_rejected", 1);
                rep.notes.push(format!("world {}: {}", wi, clip(&e, 200)));
                continue;
            }
            Err(p) => {
                rep.skipped_panic(&p, json!({"world": wi, "stage": "build"}));
                continue;
            }
        };
        rep.count("tables", 1);
        let keys: Vec<String> = table.replace.keys().cloned().collect();
        let prefix_related = keys.iter().any(|a| keys.iter().any(|b| a != b && b.starts_with(a.as_str())));
        if prefix_related {
            rep.count("tables_with_prefix_related_keys", 1);
        }
        let cc = &world.dict.grammar().character_category;
        let is_kanji = |c: char| cc.get_category_types(c).intersects(CategoryType::KANJI);
        let is_kana = |c: char| cc.get_category_types(c).intersects(CategoryType::HIRAGANA | CategoryType::KATAKANA);
        let scen = |text: &str, which: &str| json!({"world_index": wi, "plugin": which, "text": text, "rewrite_def": table_text, "marks": marks.iter().collect::<String>(), "replacement": repl, "left": lbr.iter().collect::<String>(), "right": rbr.iter().collect::<String>(), "max_yomigana": maxy});
        let mut t = Tok::new(&world.dict, Mode::C);
        let key_any_upper = |s: &str| s.chars().any(|c| c.is_uppercase());
        let _ = key_any_upper;
        for _ in 0..60 {
            // 1. default plugin
            let text = gen_input(&mut rng, &table, &keys);
            rep.eval();
            let exp = normref::normalize(&table, &text);
            let skip_title = text.chars().any(normref::is_titlecase);
            if !skip_title {
                match guard(|| apply_plugin(&world, 0, &text)) {
                    Ok(Ok(got)) => {
                        rep.count("default_rewrites_checked", 1);
                        if got != exp {
                            rep.violation("normalisation", "DefaultInputTextPlugin", &format!("input {:?}: expected {:?}, got {:?}", clip(&text, 60), clip(&exp, 80), clip(&got, 80)), "", scen(&text, "default"));
                        } else if exp != text {
                            rep.nontrivial(fnv(format!("{}|{}", table_text, text).as_bytes()));
                        }
                        // relational: the same span inside a text that forces the general code path
                        if !keys.iter().any(|k| k.contains('Ａ')) {
                            let forced = format!("{}Ａ", text);
                            if let Ok(Ok(got2)) = guard(|| apply_plugin(&world, 0, &forced)) {
                                rep.count("fast_vs_general_path_pairs", 1);
                                let mut tail = String::new();
                                normref::norm_char(&table, 'Ａ', &mut tail);
                                if got2 != format!("{}{}", got, tail) {
                                    rep.violation("context_dependence", "DefaultInputTextPlugin", &format!("{:?} is rewritten to {:?} alone but to {:?} when followed by 'Ａ'", clip(&text, 60), clip(&got, 80), clip(&got2, 80)), "", scen(&text, "default"));
                                }
                            }
                        }
                    }
                    Ok(Err(e)) => rep.notes.push(format!("rewrite error: {}", clip(&e, 100))),
                    Err(p) => rep.violation("rewrite_panic", &p.site, &p.msg, "", scen(&text, "default")),
                }
            }
            // 2. prolonged sound marks
            let mut ptxt = String::new();
            for _ in 0..rng.below(8) {
                if rng.chance(1, 2) {
                    for _ in 0..1 + rng.below(4) {
                        ptxt.push(*rng.pick(&mark_pool));
                    }
                } else {
                    ptxt.push_str(rng.s(textgen::KATA));
                }
            }
            rep.eval();
            let pexp = normref::prolonged(&ptxt, &marks, &repl);
            match guard(|| apply_plugin(&world, 1, &ptxt)) {
                Ok(Ok(got)) => {
                    rep.count("prolonged_rewrites_checked", 1);
                    if got != pexp {
                        rep.violation("prolonged_marks", "ProlongedSoundMarkPlugin", &format!("input {:?}: expected {:?}, got {:?}", ptxt, pexp, got), "", scen(&ptxt, "prolonged"));
                    } else if pexp != ptxt {
                        rep.nontrivial(fnv(format!("P{:?}|{}", marks, ptxt).as_bytes()));
                    }
                }
                Ok(Err(e)) => rep.notes.push(format!("rewrite error: {}", clip(&e, 100))),
                Err(p) => rep.violation("rewrite_panic", &p.site, &p.msg, "", scen(&ptxt, "prolonged")),
            }
            // 3. yomigana
            let mut ytxt = String::new();
            for _ in 0..rng.below(6) {
                match rng.below(4) {
                    0 | 1 => {
                        ytxt.push_str(rng.s(&["漢", "字", "京", "々", "〇", "a", "あ", "カ", "𠮷", "一", "𠮷", "𩸽", "à", "å"]));
                        if rng.chance(3, 4) {
                            ytxt.push(*rng.pick(&['(', '（', '[', '「', ')', '）']));
                            for _ in 0..rng.below(7) {
                                ytxt.push_str(rng.s(&["か", "ん", "ジ", "カ", "ー", "゠", "ㇰ", "a", "漢", "ｶ", "ゟ", "\u{3100}"]));
                            }
                            if rng.chance(5, 6) {
                                ytxt.push(*rng.pick(&[')', '）', ']', '」', '(']));
                            }
                        }
                    }
                    _ => ytxt.push_str(textgen::pick_char(&mut rng)),
                }
            }
            rep.eval();
            let yexp = normref::yomigana(&ytxt, &is_kanji, &is_kana, &lbr, &rbr, maxy);
            match guard(|| apply_plugin(&world, 2, &ytxt)) {
                Ok(Ok(got)) => {
                    rep.count("yomigana_rewrites_checked", 1);
                    if got != yexp {
                        rep.violation("yomigana", "IgnoreYomiganaPlugin", &format!("input {:?}: expected {:?}, got {:?}", ytxt, yexp, got), "", scen(&ytxt, "yomigana"));
                    } else if yexp != ytxt {
                        rep.nontrivial(fnv(format!("Y{}|{}", maxy, ytxt).as_bytes()));
                        rep.count("yomigana_deletions", 1);
                    }
                }
                Ok(Err(e)) => rep.notes.push(format!("rewrite error: {}", clip(&e, 100))),
                Err(p) => rep.violation("rewrite_panic", &p.site, &p.msg, "", scen(&ytxt, "yomigana")),
            }
            // 4. the whole stack through the tokenizer: the composition of the three
            if !skip_title && rng.chance(1, 4) {
                let full = format!("{}{}{}", text, ptxt, ytxt);
                if full.chars().any(normref::is_titlecase) {
                    continue;
                }
                let e1 = normref::normalize(&table, &full);
                let e2 = normref::prolonged(&e1, &marks, &repl);
                let e3 = normref::yomigana(&e2, &is_kanji, &is_kana, &lbr, &rbr, maxy);
                rep.eval();
                // now and then the same tokenizer is first given an input whose rewritten form is far too long (refused):
                // how the next text is rewritten does not depend on that
                if rng.chance(1, 6) {
                    let long = "\u{fdfa}".repeat(3000);
                    if let Ok(Err(_)) = guard(|| t.run(&long)) {
                        rep.count("rejected_inputs_before_a_stack_check", 1);
                    }
                }
                match guard(|| t.run(&full)) {
                    Ok(Ok(())) => {
                        rep.count("full_stack_normalisations_checked", 1);
                        if t.normalized != e3 {
                            rep.violation("normalisation_stack", "do_tokenize", &format!("input {:?}: expected {:?}, analysed text is {:?}", clip(&full, 80), clip(&e3, 80), clip(&t.normalized, 80)), "", scen(&full, "stack"));
                        }
                    }
                    Ok(Err(e)) => {
                        // a short input is never too long, whatever was analysed before
                        if full.len() < 2000 && format!("{:?}", e).contains("InputTooLong") {
                            rep.violation("normalisation_stack", "do_tokenize", &format!("input {:?} ({} bytes) is refused as too long", clip(&full, 80), full.len()), "", scen(&full, "stack"));
                            t = Tok::new(&world.dict, Mode::C);
                        }
                    }
                    Err(p) => {
                        // the same text on a new tokenizer tells whether the panic comes from what was analysed before
                        t = Tok::new(&world.dict, Mode::C);
                        if let Ok(Ok(())) = guard(|| t.run(&full)) {
                            if t.normalized == e3 {
                                rep.violation("normalisation_stack", &p.site, &format!("input {:?}: a new tokenizer rewrites it as specified, the tokenizer that had analysed other texts before panics: {}", clip(&full, 80), p.msg), "", scen(&full, "stack"));
                            }
                        }
                    }
                }
            }
        }
        if rep.want_sample() && prefix_related {
            rep.sample(json!({"rewrite_def": table_text, "marks": marks.iter().collect::<String>(), "max_yomigana": maxy}));
        }
    }
    let _: HashMap<u8, u8> = HashMap::new();
}
