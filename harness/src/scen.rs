//! A "world": generated dictionaries + definition files + plugin configuration, loaded.

use serde_json::{json, Value};
use sudachi::analysis::stateful_tokenizer::StatefulTokenizer;
use sudachi::analysis::Mode;
use sudachi::dic::dictionary::JapaneseDictionary;
use sudachi::prelude::MorphemeList;

use crate::dictgen::{self, DictOpts};
use crate::env::{self, Place, ResDir, CLS};
use crate::model::*;
use crate::rng::Rng;

#[derive(Clone, Debug)]
pub struct PluginOpts {
    pub default_input: bool,
    pub prolonged: bool,
    pub yomigana: bool,
    pub mecab: bool,
    pub regex: Option<(String, bool, usize)>,
    /// "debug": true for the regex provider (it then reports matches that do not start where the provider was asked)
    pub regex_debug: bool,
    pub join_numeric: Option<bool>,
    pub join_katakana: Option<usize>,
    pub inhibit: Vec<(i16, i16)>,
    /// simple OOV (always last): (left, right, cost)
    pub simple: (i64, i64, i64),
    pub n_users: usize,
    /// custom definition files (None = the repository's resources/ files)
    pub rewrite_def: Option<String>,
    pub char_def: Option<String>,
    /// settings of the prolonged-sound-mark plugin: (marks, replacement)
    pub prolonged_cfg: Option<(Vec<char>, String)>,
    /// settings of the yomigana plugin: (left brackets, right brackets, max length)
    pub yomigana_cfg: Option<(Vec<char>, Vec<char>, usize)>,
    /// katakana joining before numeric joining
    pub path_swapped: bool,
    /// additional OOV provider configurations placed before the others
    pub extra_oov_front: Vec<Value>,
    /// input-text plugins listed in reverse order (yomigana, prolonged marks, default)
    pub input_rev: bool,
    /// no SimpleOovPlugin at the end of the provider list (analysis may then fail for lack of candidates)
    pub no_fallback: bool,
}

impl PluginOpts {
    pub fn none() -> PluginOpts {
        PluginOpts {
            default_input: false,
            prolonged: false,
            yomigana: false,
            mecab: false,
            regex: None,
            regex_debug: false,
            join_numeric: None,
            join_katakana: None,
            inhibit: vec![],
            simple: (0, 0, 10000),
            n_users: 0,
            rewrite_def: None,
            char_def: None,
            prolonged_cfg: None,
            yomigana_cfg: None,
            path_swapped: false,
            extra_oov_front: vec![],
            input_rev: false,
            no_fallback: false,
        }
    }

    pub fn random(rng: &mut Rng, m: &Matrix, path_rewrite: bool) -> PluginOpts {
        let nid = m.nid() as i64;
        let mut o = PluginOpts::none();
        o.default_input = rng.chance(3, 4);
        o.prolonged = rng.chance(1, 2);
        o.yomigana = rng.chance(1, 2);
        o.mecab = rng.chance(2, 3);
        if rng.chance(1, 3) {
            // (the alternations: only their first branch is anchored by the provider, a match of a later branch further
            // right must be ignored; the largest maxLength must not overflow anything)
            let re = rng.pick(&["[a-z]+[0-9]*", "[0-9a-z-]+", "[ア-ン]{2,}", "\\p{Han}+", "a?", "[0-9]*x?", "[a-z]+[0-9]+|[0-9]+[a-z]+", "xyz|[0-9]+"]).to_string();
            o.regex = Some((re, rng.chance(1, 2), *rng.pick(&[2usize, 4, 32, 32, 65535, usize::MAX])));
        }
        if path_rewrite {
            if rng.chance(1, 2) {
                o.join_numeric = Some(rng.chance(2, 3));
            }
            if rng.chance(1, 2) {
                o.join_katakana = Some(1 + rng.below(4));
            }
        }
        if rng.chance(1, 4) {
            for _ in 0..1 + rng.below(3) {
                o.inhibit.push((rng.below(m.nl) as i16, rng.below(m.nr) as i16));
            }
        }
        o.simple = (rng.range(0, nid - 1), rng.range(0, nid - 1), rng.range(3000, 20000));
        o.n_users = if rng.chance(1, 2) { 0 } else { 1 + rng.below(3) };
        o
    }

    /// Unusual but legal settings of the prolonged-sound-mark and yomigana plugins (a replacement that is
    /// empty or longer than the run it replaces, other marks and brackets, other length limits)
    pub fn randomize_input_cfg(&mut self, rng: &mut Rng) {
        let mark_pool = ['ー', '-', '⁓', '〜', '〰', '~', 'ｰ', '!', 'っ'];
        let mut marks: Vec<char> = vec![];
        for _ in 0..1 + rng.below(4) {
            let c = *rng.pick(&mark_pool);
            if !marks.contains(&c) {
                marks.push(c);
            }
        }
        let repl = rng.s(&["", "", "ー", "ーー", "x", "〜", "𠮷"]).to_string();
        self.prolonged_cfg = Some((marks, repl));
        let lbr: Vec<char> = if rng.chance(1, 2) { vec!['(', '（'] } else { vec!['[', '「', '('] };
        let rbr: Vec<char> = if rng.chance(1, 2) { vec![')', '）'] } else { vec![']', '」', ')'] };
        self.yomigana_cfg = Some((lbr, rbr, *rng.pick(&[1usize, 2, 4, 8, 30])));
        self.prolonged = true;
        if rng.chance(1, 2) {
            self.yomigana = true;
        }
        // the plugins may be listed in any order (a later one then edits what an earlier one resized)
        if rng.chance(1, 2) {
            self.input_rev = true;
            self.default_input = true;
        }
    }

    pub fn to_cfg(&self, oov_pos: &Pos, kata_pos: &Pos) -> Value {
        let mut input = vec![];
        if self.default_input {
            input.push(json!({"class": format!("{}DefaultInputTextPlugin", CLS)}));
        }
        if self.prolonged {
            let (marks, repl) = self.prolonged_cfg.clone().unwrap_or((vec!['ー', '-', '⁓', '〜', '〰'], "ー".to_string()));
            let marks: Vec<String> = marks.iter().map(|c| c.to_string()).collect();
            input.push(json!({"class": format!("{}ProlongedSoundMarkPlugin", CLS),
                "prolongedSoundMarks": marks, "replacementSymbol": repl}));
        }
        if self.yomigana {
            let (l, r, max) = self.yomigana_cfg.clone().unwrap_or((vec!['(', '（'], vec![')', '）'], 4));
            let l: Vec<String> = l.iter().map(|c| c.to_string()).collect();
            let r: Vec<String> = r.iter().map(|c| c.to_string()).collect();
            input.push(json!({"class": format!("{}IgnoreYomiganaPlugin", CLS),
                "leftBrackets": l, "rightBrackets": r, "maxYomiganaLength": max}));
        }
        if self.input_rev {
            input.reverse();
        }
        let mut oov = self.extra_oov_front.clone();
        if self.mecab {
            oov.push(json!({"class": format!("{}MeCabOovPlugin", CLS), "charDef": "char.def", "unkDef": "unk.def"}));
        }
        if let Some((re, relaxed, maxlen)) = &self.regex {
            let mut v = json!({"class": format!("{}RegexOovProvider", CLS), "oovPOS": oov_pos.to_vec(),
                "leftId": self.simple.0, "rightId": self.simple.1, "cost": self.simple.2 / 2,
                "regex": re, "maxLength": maxlen, "boundaries": if *relaxed {"relaxed"} else {"strict"}});
            if self.regex_debug {
                v["debug"] = json!(true);
            }
            oov.push(v);
        }
        if !self.no_fallback || oov.is_empty() {
            oov.push(env::simple_oov(oov_pos, self.simple.0, self.simple.1, self.simple.2));
        }
        let mut path = vec![];
        if let Some(norm) = self.join_numeric {
            path.push(json!({"class": format!("{}JoinNumericPlugin", CLS), "enableNormalize": norm}));
        }
        if let Some(minlen) = self.join_katakana {
            path.push(json!({"class": format!("{}JoinKatakanaOovPlugin", CLS), "oovPOS": kata_pos.to_vec(), "minLength": minlen}));
        }
        if self.path_swapped {
            path.reverse();
        }
        let mut conn = vec![];
        if !self.inhibit.is_empty() {
            let pairs: Vec<Value> = self.inhibit.iter().map(|(a, b)| json!([a, b])).collect();
            conn.push(json!({"class": format!("{}InhibitConnectionPlugin", CLS), "inhibitPair": pairs}));
        }
        json!({
            "characterDefinitionFile": "char.def",
            "inputTextPlugin": input,
            "oovProviderPlugin": oov,
            "pathRewritePlugin": path,
            "connectionCostPlugin": conn,
        })
    }
}

pub struct World {
    pub res: ResDir,
    pub matrix: Matrix,
    pub sys: Lexicon,
    pub users: Vec<Lexicon>,
    pub sys_csv: String,
    pub matrix_text: String,
    pub user_csvs: Vec<String>,
    pub sys_bytes: Vec<u8>,
    pub user_bytes: Vec<Vec<u8>>,
    pub cfg_json: Value,
    pub plugins: PluginOpts,
    pub unk_def: String,
    pub dict: JapaneseDictionary,
}

impl World {
    /// All index keys of all layers
    pub fn keys(&self) -> Vec<String> {
        let mut k: Vec<String> = self.sys.entries.iter().map(|e| e.key.clone()).collect();
        for u in &self.users {
            k.extend(u.entries.iter().map(|e| e.key.clone()));
        }
        k
    }

    /// The effective matrix after the inhibit-connection plugin
    pub fn effective_matrix(&self) -> Matrix {
        let mut m = self.matrix.clone();
        for (a, b) in &self.plugins.inhibit {
            m.set(*a as usize, *b as usize, i16::MAX);
        }
        m
    }

    pub fn lexicon_of(&self, dic: usize) -> &Lexicon {
        if dic == 0 {
            &self.sys
        } else {
            &self.users[dic - 1]
        }
    }

    /// Complete textual description (enough to rebuild the world by hand)
    pub fn describe(&self, full: bool) -> Value {
        let clip = |s: &str| if full { s.to_string() } else { crate::report::clip(s, 600) };
        json!({
            "matrix": clip(&self.matrix_text),
            "lexicon_csv": clip(&self.sys_csv),
            "user_csvs": self.user_csvs.iter().map(|s| clip(s)).collect::<Vec<_>>(),
            "config": self.cfg_json,
            "unk_def": clip(&self.unk_def),
            "rewrite_def": self.plugins.rewrite_def.as_ref().map(|s| clip(s)),
            "char_def": self.plugins.char_def.as_ref().map(|s| clip(s)),
            "definitions": "char.def and rewrite.def are the repository's resources/ files unless given here",
        })
    }
}

/// like build_world with random plugins, which `tweak` may adjust before the configuration is written
pub fn build_world_tweak(rng: &mut Rng, dopts: &DictOpts, path_rewrite: bool, place: Place, tweak: impl FnOnce(&mut Rng, &mut PluginOpts)) -> Result<World, String> {
    let matrix = dictgen::gen_matrix(rng, dopts);
    let sys = dictgen::gen_system(rng, dopts, &matrix);
    let mut plugins = PluginOpts::random(rng, &matrix, path_rewrite);
    tweak(rng, &mut plugins);
    build_world_from(rng, dopts, matrix, sys, plugins, place)
}

pub fn build_world(rng: &mut Rng, dopts: &DictOpts, popts: Option<PluginOpts>, path_rewrite: bool, place: Place) -> Result<World, String> {
    let matrix = dictgen::gen_matrix(rng, dopts);
    let sys = dictgen::gen_system(rng, dopts, &matrix);
    let plugins = match popts {
        Some(p) => p,
        None => PluginOpts::random(rng, &matrix, path_rewrite),
    };
    build_world_from(rng, dopts, matrix, sys, plugins, place)
}

pub fn build_world_from(rng: &mut Rng, dopts: &DictOpts, matrix: Matrix, sys: Lexicon, plugins: PluginOpts, place: Place) -> Result<World, String> {
    build_world_users(rng, dopts, matrix, sys, None, plugins, place)
}

/// `premade`: user lexicons to use instead of `plugins.n_users` generated ones
pub fn build_world_users(rng: &mut Rng, dopts: &DictOpts, matrix: Matrix, sys: Lexicon, premade: Option<Vec<Lexicon>>, mut plugins: PluginOpts, place: Place) -> Result<World, String> {
    if let Some(p) = &premade {
        plugins.n_users = p.len();
    }
    let res = ResDir::standard();
    let pool = dictgen::pos_pool();
    let unk_def = dictgen::gen_unk_def(rng, &matrix, if dopts.no_symbol_pos { &pool[0..2] } else { &pool[0..3] });
    res.write("unk.def", &unk_def);
    if let Some(t) = &plugins.rewrite_def {
        res.write("rewrite.def", t);
    }
    if let Some(t) = &plugins.char_def {
        res.write("char.def", t);
    }
    let sys_csv = sys.to_csv(None);
    let matrix_text = matrix.to_text();
    let sys_bytes = env::compile_system(sys_csv.as_bytes(), matrix_text.as_bytes())
        .map_err(|e| format!("system dictionary rejected: {:?}", e))?;

    // user dictionaries are compiled against a plain load of the system dictionary (as the CLI does)
    let mut users = Vec::new();
    let mut user_csvs = Vec::new();
    let mut user_bytes = Vec::new();
    if plugins.n_users > 0 {
        let plain_cfg = env::config(&env::minimal_cfg(&pool[0]), &res);
        let plain = env::load(&plain_cfg, &sys_bytes, &[], Place::Owned).map_err(|e| format!("plain load failed: {:?}", e))?;
        for layer in 0..plugins.n_users {
            let u = match &premade {
                Some(p) => p[layer].clone(),
                None => dictgen::gen_user(rng, dopts, &matrix, &sys, layer),
            };
            let csv = u.to_csv(Some(&sys));
            let b = env::compile_user(&plain, csv.as_bytes()).map_err(|e| format!("user dictionary rejected: {:?}", e))?;
            users.push(u);
            user_csvs.push(csv);
            user_bytes.push(b);
        }
    }

    // (dictionaries without the symbol POS name the first POS of the pool for their OOV providers)
    let cfg_json = plugins.to_cfg(if dopts.no_symbol_pos { &pool[0] } else { &pool[2] }, &pool[0]);
    let cfg = env::config(&cfg_json, &res);
    let dict = env::load(&cfg, &sys_bytes, &user_bytes, place).map_err(|e| format!("load failed: {:?}", e))?;
    Ok(World {
        res,
        matrix,
        sys,
        users,
        sys_csv,
        matrix_text,
        user_csvs,
        sys_bytes,
        user_bytes,
        cfg_json,
        plugins,
        unk_def,
        dict,
    })
}

/// One morpheme as observed through the public accessors
#[derive(Clone, Debug, PartialEq, Eq)]
pub struct Obs {
    pub begin: usize,
    pub end: usize,
    pub begin_c: usize,
    pub end_c: usize,
    pub surface: String,
    pub word_id: u32,
    pub dic_id: i32,
    pub is_oov: bool,
    pub pos_id: u16,
    pub pos: Vec<String>,
    pub norm: String,
    pub dict_form: String,
    pub reading: String,
    pub synonyms: Vec<u32>,
    pub total_cost: i32,
    pub wi_surface: String,
}

pub fn observe(list: &MorphemeList<&JapaneseDictionary>) -> Vec<Obs> {
    let mut v = Vec::with_capacity(list.len());
    for m in list.iter() {
        v.push(Obs {
            begin: m.begin(),
            end: m.end(),
            begin_c: m.begin_c(),
            end_c: m.end_c(),
            surface: m.surface().to_string(),
            word_id: m.word_id().as_raw(),
            dic_id: m.dictionary_id(),
            is_oov: m.is_oov(),
            pos_id: m.part_of_speech_id(),
            pos: m.part_of_speech().to_vec(),
            norm: m.normalized_form().to_string(),
            dict_form: m.dictionary_form().to_string(),
            reading: m.reading_form().to_string(),
            synonyms: m.synonym_group_ids().to_vec(),
            total_cost: m.total_cost(),
            wi_surface: m.get_word_info().surface().to_string(),
        });
    }
    v
}

pub struct Tok<'a> {
    pub tok: StatefulTokenizer<&'a JapaneseDictionary>,
    pub list: MorphemeList<&'a JapaneseDictionary>,
    /// normalised text of the last successful analysis
    pub normalized: String,
    /// (begin, end) of every result node in characters of the normalised text
    pub nranges: Vec<(usize, usize)>,
}

impl<'a> Tok<'a> {
    pub fn new(dict: &'a JapaneseDictionary, mode: Mode) -> Tok<'a> {
        Tok { tok: StatefulTokenizer::new(dict, mode), list: MorphemeList::empty(dict), normalized: String::new(), nranges: Vec::new() }
    }

    /// reset + tokenize + collect. Err carries the library error text.
    pub fn run(&mut self, text: &str) -> Result<(), sudachi::error::SudachiError> {
        self.tok.reset().push_str(text);
        self.tok.do_tokenize()?;
        self.normalized.clear();
        self.normalized.push_str(self.tok.verif_input().current());
        self.peek_ranges();
        self.list.collect_results(&mut self.tok)?;
        Ok(())
    }

    /// records the (begin, end) of every result node of the analysis that was just made, before the
    /// results are collected (public swap API, swapped back immediately)
    pub fn peek_ranges(&mut self) {
        use sudachi::analysis::node::LatticeNode;
        let mut inp = sudachi::input_text::InputBuffer::new();
        let mut nodes = Vec::new();
        let mut ss = sudachi::dic::subset::InfoSubset::empty();
        self.tok.swap_result(&mut inp, &mut nodes, &mut ss);
        self.nranges = nodes.iter().map(|n| (n.begin(), n.end())).collect();
        self.tok.swap_result(&mut inp, &mut nodes, &mut ss);
    }
}

pub fn mode_name(m: Mode) -> &'static str {
    match m {
        Mode::A => "A",
        Mode::B => "B",
        Mode::C => "C",
    }
}

pub const MODES: [Mode; 3] = [Mode::A, Mode::B, Mode::C];
