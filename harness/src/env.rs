//! Scenario environment: scratch resource directories, dictionary compilation and loading.

use std::path::{Path, PathBuf};
use std::sync::atomic::{AtomicU64, Ordering};

use serde_json::{json, Value};
use sudachi::config::{Config, ConfigBuilder};
use sudachi::dic::build::DictBuilder;
use sudachi::dic::dictionary::JapaneseDictionary;
use sudachi::dic::storage::{Storage, SudachiDicData};
use sudachi::error::SudachiResult;

static COUNTER: AtomicU64 = AtomicU64::new(0);

/// root of the repository under test (always /repo for the registered checks)
pub fn repo_root() -> PathBuf {
    PathBuf::from(std::env::var("VH_REPO").unwrap_or_else(|_| "/repo".to_string()))
}

pub fn scratch_root() -> PathBuf {
    match std::env::var("VH_SCRATCH") {
        Ok(p) => PathBuf::from(p),
        Err(_) => PathBuf::from("/verif/work/scratch"),
    }
}

/// A scratch resource directory, removed on drop
pub struct ResDir {
    pub path: PathBuf,
}

impl ResDir {
    pub fn new() -> ResDir {
        let n = COUNTER.fetch_add(1, Ordering::Relaxed);
        let path = scratch_root().join(format!("p{}-{}", std::process::id(), n));
        std::fs::create_dir_all(&path).expect("scratch dir");
        ResDir { path }
    }

    pub fn write(&self, name: &str, content: &str) {
        std::fs::write(self.path.join(name), content).expect("write resource");
    }

    pub fn write_bytes(&self, name: &str, content: &[u8]) {
        std::fs::write(self.path.join(name), content).expect("write resource");
    }

    /// Directory with the repository's standard definition files
    pub fn standard() -> ResDir {
        let d = ResDir::new();
        for f in ["char.def", "unk.def", "rewrite.def"] {
            let src = repo_root().join("resources").join(f);
            // read + write instead of fs::copy (which needs fchmod, unsupported by Miri)
            let data = std::fs::read(&src).expect("read resource");
            std::fs::write(d.path.join(f), data).expect("copy resource");
        }
        d
    }
}

impl Drop for ResDir {
    fn drop(&mut self) {
        let _ = std::fs::remove_dir_all(&self.path);
    }
}

pub const FIXED_TIME_SECS: u64 = 1_600_000_000;
/// description written into every system dictionary (non-ASCII on purpose: bytes != characters)
pub const DESCRIPTION: &str = "vh 辞書";

fn fixed_time() -> std::time::SystemTime {
    std::time::UNIX_EPOCH + std::time::Duration::from_secs(FIXED_TIME_SECS)
}

pub fn compile_system(lex_csv: &[u8], matrix: &[u8]) -> SudachiResult<Vec<u8>> {
    let mut b = DictBuilder::new_system();
    b.set_compile_time(fixed_time());
    b.set_description(DESCRIPTION);
    b.read_conn(matrix)?;
    b.read_lexicon(lex_csv)?;
    b.resolve()?;
    let mut out = Vec::new();
    b.compile(&mut out)?;
    Ok(out)
}

pub fn compile_user(system: &JapaneseDictionary, lex_csv: &[u8]) -> SudachiResult<Vec<u8>> {
    let mut b = DictBuilder::new_user(system);
    b.set_compile_time(fixed_time());
    b.set_description("vh-user");
    b.read_lexicon(lex_csv)?;
    b.resolve()?;
    let mut out = Vec::new();
    b.compile(&mut out)?;
    Ok(out)
}

pub fn config(json_cfg: &Value, res: &ResDir) -> Config {
    let bytes = serde_json::to_vec(json_cfg).unwrap();
    ConfigBuilder::from_bytes(&bytes)
        .expect("config json")
        .resource_path(res.path.clone())
        .build()
}

/// How the dictionary bytes are placed in memory
#[derive(Clone, Copy, Debug, PartialEq, Eq)]
pub enum Place {
    /// `Vec<u8>` as allocated
    Owned,
    /// leaked buffer, slice starting `n` bytes after an 8-aligned address (n in 0..8)
    Offset(usize),
}

pub fn storage(bytes: &[u8], place: Place) -> Storage {
    match place {
        Place::Owned => Storage::Owned(bytes.to_vec()),
        Place::Offset(n) => {
            // u64 backing store gives an 8-aligned base
            let words = (bytes.len() + n + 7) / 8 + 1;
            let backing: &'static mut [u64] = Box::leak(vec![0u64; words].into_boxed_slice());
            let base = backing.as_mut_ptr() as *mut u8;
            let slice: &'static mut [u8] =
                unsafe { std::slice::from_raw_parts_mut(base.add(n), bytes.len()) };
            slice.copy_from_slice(bytes);
            Storage::Borrowed(slice)
        }
    }
}

pub fn load(
    cfg: &Config,
    system: &[u8],
    users: &[Vec<u8>],
    place: Place,
) -> SudachiResult<JapaneseDictionary> {
    let mut data = SudachiDicData::new(storage(system, place));
    for u in users {
        data.add_user(storage(u, place));
    }
    JapaneseDictionary::from_cfg_storage(cfg, data)
}

pub const CLS: &str = "com.worksap.nlp.sudachi.";

pub fn simple_oov(pos: &[String; 6], left: i64, right: i64, cost: i64) -> Value {
    json!({
        "class": format!("{}SimpleOovPlugin", CLS),
        "oovPOS": pos.to_vec(),
        "leftId": left, "rightId": right, "cost": cost
    })
}

pub fn simple_oov_allow(pos: &[String; 6], left: i64, right: i64, cost: i64) -> Value {
    json!({
        "class": format!("{}SimpleOovPlugin", CLS),
        "oovPOS": pos.to_vec(),
        "leftId": left, "rightId": right, "cost": cost, "userPOS": "allow"
    })
}

/// Minimal configuration: only a simple OOV provider (what is used to compile user dictionaries)
pub fn minimal_cfg(oov_pos: &[String; 6]) -> Value {
    json!({
        "characterDefinitionFile": "char.def",
        "oovProviderPlugin": [ simple_oov(oov_pos, 0, 0, 30000) ]
    })
}

/// Points file descriptor 1 to /dev/null (the code under test prints debug dumps with println!)
pub fn silence_stdout() {
    use std::os::unix::io::AsRawFd;
    extern "C" {
        fn dup2(oldfd: i32, newfd: i32) -> i32;
    }
    if let Ok(f) = std::fs::OpenOptions::new().write(true).open("/dev/null") {
        unsafe {
            dup2(f.as_raw_fd(), 1);
        }
    }
}
