//! C02 — the chosen segmentation is a minimum-cost lattice path.
//! Oracle: an independent shortest-path computation in i64 over the *observed* lattice nodes
//! (hook H4), with connection costs taken from the generated matrix text (never from
//! `ConnectionMatrix::cost`) and word parameters checked against the source CSV.

use serde_json::json;
use std::collections::HashMap;
use sudachi::analysis::Mode;
use sudachi::verif::NodeView;

use crate::dictgen::DictOpts;
use crate::env::Place;
use crate::model::Matrix;
use crate::report::{clip, guard, Report};
use crate::rng::{fnv, Rng};
use crate::scen::{build_world, observe, Tok, World};
use crate::textgen;
use crate::Ctx;

pub struct LatticeObs {
    /// nodes[b] = nodes ending at char boundary b
    pub nodes: Vec<Vec<NodeView>>,
    pub eos: Option<(u16, u16, i32)>,
    pub normalized: String,
    /// byte offset of each char boundary of the normalised text (len+1 entries)
    pub c2b: Vec<usize>,
    pub can_bow: Vec<bool>,
}

pub fn observe_lattice(t: &Tok) -> LatticeObs {
    let lat = t.tok.verif_lattice();
    let inp = t.tok.verif_input();
    let normalized = inp.current().to_string();
    let mut c2b: Vec<usize> = normalized.char_indices().map(|(b, _)| b).collect();
    c2b.push(normalized.len());
    let size = lat.verif_size();
    let nodes = (0..size).map(|b| lat.verif_nodes(b)).collect();
    let can_bow = (0..normalized.len()).map(|b| inp.can_bow(b)).collect();
    LatticeObs { nodes, eos: lat.verif_eos(), normalized, c2b, can_bow }
}

pub struct DpResult {
    /// best[b][i]: minimal cost of a path BOS..node i ending at b (including the node)
    pub best: Vec<Vec<i64>>,
    pub worst: Vec<Vec<i64>>,
    pub eos_min: Option<i64>,
    pub eos_max: Option<i64>,
}

pub fn dp(lat: &LatticeObs, m: &Matrix) -> Result<DpResult, String> {
    let n = lat.nodes.len();
    let mut best: Vec<Vec<i64>> = vec![vec![]; n];
    let mut worst: Vec<Vec<i64>> = vec![vec![]; n];
    for b in 0..n {
        for node in &lat.nodes[b] {
            if node.end != b || node.begin >= b {
                return Err(format!("node {:?} stored at boundary {}", node, b));
            }
            let l = node.left_id as usize;
            if l >= m.nr {
                return Err(format!("node left id {} outside the matrix ({}x{})", l, m.nl, m.nr));
            }
            let (mut lo, mut hi) = (i64::MAX, i64::MIN);
            if node.begin == 0 {
                let c = m.cost(0, l) as i64 + node.cost as i64;
                lo = c;
                hi = c;
            } else {
                for (pi, p) in lat.nodes[node.begin].iter().enumerate() {
                    let r = p.right_id as usize;
                    if r >= m.nl {
                        return Err(format!("node right id {} outside the matrix ({}x{})", r, m.nl, m.nr));
                    }
                    let conn = m.cost(r, l) as i64;
                    lo = lo.min(best[node.begin][pi] + conn + node.cost as i64);
                    hi = hi.max(worst[node.begin][pi] + conn + node.cost as i64);
                }
            }
            if lo == i64::MAX {
                return Err(format!("node {:?} has no predecessor", node));
            }
            best[b].push(lo);
            worst[b].push(hi);
        }
    }
    let last = n - 1;
    let mut eos_min = None;
    let mut eos_max = None;
    for (i, p) in lat.nodes[last].iter().enumerate() {
        let conn = m.cost(p.right_id as usize, 0) as i64;
        let lo = best[last][i] + conn;
        let hi = worst[last][i] + conn;
        eos_min = Some(eos_min.map_or(lo, |x: i64| x.min(lo)));
        eos_max = Some(eos_max.map_or(hi, |x: i64| x.max(hi)));
    }
    Ok(DpResult { best, worst, eos_min, eos_max })
}

/// Follows the back pointers from EOS; returns the path (boundary, index) front to back
pub fn chain(lat: &LatticeObs) -> Result<Vec<(usize, usize)>, String> {
    let (mut e, mut i, _) = lat.eos.ok_or("no EOS link")?;
    let mut path = vec![];
    let mut steps = 0;
    loop {
        steps += 1;
        if steps > 100000 {
            return Err("back-pointer chain does not terminate".into());
        }
        let node = lat.nodes.get(e as usize).and_then(|v| v.get(i as usize)).ok_or(format!("back pointer ({},{}) points outside the lattice", e, i))?;
        path.push((e as usize, i as usize));
        if node.prev_end == 0 {
            break;
        }
        e = node.prev_end;
        i = node.prev_index;
    }
    path.reverse();
    Ok(path)
}

/// Checks one analysed input. Returns Err(kind, message) on a refutation.
pub fn check_lattice(world: &World, t: &Tok, lat: &LatticeObs, m: &Matrix, path_rewrite: bool, rep: &mut Report) -> Result<bool, (String, String)> {
    let d = dp(lat, m).map_err(|e| ("lattice_shape".to_string(), e))?;
    let mut nnodes = 0u64;
    for b in 0..lat.nodes.len() {
        for (i, node) in lat.nodes[b].iter().enumerate() {
            nnodes += 1;
            if node.total_cost as i64 != d.best[b][i] {
                return Err(("node_cost".into(), format!(
                    "node [{}..{}] word {:#x} (l={}, r={}, cost={}) has total cost {} but the cheapest path to it costs {}",
                    node.begin, node.end, node.word_id, node.left_id, node.right_id, node.cost, node.total_cost, d.best[b][i])));
            }
        }
    }
    rep.count("lattice_nodes_checked", nnodes);
    let (ee, ei, ecost) = lat.eos.ok_or(("eos".to_string(), "no EOS link after successful analysis".to_string()))?;
    let emin = d.eos_min.ok_or(("eos".to_string(), "no node reaches the end of the text".to_string()))?;
    if ecost as i64 != emin {
        return Err(("eos_cost".into(), format!("reported best path cost {} but a complete path of cost {} exists", ecost, emin)));
    }
    let path = chain(lat).map_err(|e| ("chain".to_string(), e))?;
    // recompute the cost along the chain
    let mut acc: i64 = 0;
    let mut prev_right = 0usize;
    let mut prev_end = 0usize;
    let mut prefix = vec![];
    for (b, i) in &path {
        let node = &lat.nodes[*b][*i];
        if node.begin != prev_end {
            return Err(("chain".into(), format!("chain is not contiguous at boundary {} (node begins at {})", prev_end, node.begin)));
        }
        acc += m.cost(prev_right, node.left_id as usize) as i64 + node.cost as i64;
        prefix.push(acc);
        prev_right = node.right_id as usize;
        prev_end = node.end;
    }
    if prev_end != lat.nodes.len() - 1 {
        return Err(("chain".into(), format!("chain ends at boundary {} of {}", prev_end, lat.nodes.len() - 1)));
    }
    acc += m.cost(prev_right, 0) as i64;
    if acc != ecost as i64 || (ee as usize, ei as usize) != *path.last().unwrap() {
        return Err(("chain".into(), format!("cost recomputed along the back-pointer chain is {} but {} is reported", acc, ecost)));
    }
    rep.count("chains_recomputed", 1);

    // candidate completeness + parameters of dictionary nodes against the source model
    let bytes = lat.normalized.as_bytes();
    let mut by_pos: HashMap<(usize, usize, u32), &NodeView> = HashMap::new();
    for b in 0..lat.nodes.len() {
        for node in &lat.nodes[b] {
            by_pos.insert((node.begin, node.end, node.word_id), node);
        }
    }
    let b2c: HashMap<usize, usize> = lat.c2b.iter().enumerate().map(|(c, b)| (*b, c)).collect();
    let mut expected = 0u64;
    for cb in 0..lat.nodes.len() - 1 {
        let reachable = cb == 0 || !lat.nodes[cb].is_empty();
        if !reachable {
            continue;
        }
        let off = lat.c2b[cb];
        for dic in 0..=world.users.len() {
            for (row, e) in world.lexicon_of(dic).entries.iter().enumerate() {
                if !e.indexed() {
                    continue;
                }
                let k = e.key.as_bytes();
                if !bytes[off..].starts_with(k) {
                    continue;
                }
                let end = off + k.len();
                if end < bytes.len() && !lat.can_bow[end] {
                    continue;
                }
                let ce = match b2c.get(&end) {
                    Some(c) => *c,
                    None => continue,
                };
                expected += 1;
                let wid = ((dic as u32) << 28) | row as u32;
                match by_pos.get(&(cb, ce, wid)) {
                    None => {
                        return Err(("missing_candidate".into(), format!(
                            "dictionary {} row {} ({:?}) matches the normalised text at char {} but has no lattice node", dic, row, e.key, cb)))
                    }
                    Some(n) => {
                        // a user-dictionary row declaring cost -32768 asks the loader for an estimate: its node must carry
                        // what the loaded dictionary's word parameters say (and the declared connection ids)
                        let auto = dic > 0 && e.cost == i16::MIN;
                        let want_cost = if auto {
                            rep.count("auto_cost_candidates", 1);
                            world.dict.lexicon().get_word_param(sudachi::dic::word_id::WordId::new(dic as u8, row as u32)).2
                        } else {
                            e.cost
                        };
                        if n.left_id as i32 != e.left as i32 || n.right_id as i32 != e.right as i32 || n.cost != want_cost {
                            return Err(("candidate_params".into(), format!(
                                "dictionary {} row {} ({:?}) declares ({},{},{}) but its node carries ({},{},{})",
                                dic, row, e.key, e.left, e.right, e.cost, n.left_id, n.right_id, n.cost)));
                        }
                    }
                }
            }
        }
    }
    rep.count("dictionary_candidates_expected_and_found", expected);
    // ... and no dictionary candidate ends before a character that cannot start a word
    for b in 0..lat.nodes.len() {
        for node in &lat.nodes[b] {
            if node.word_id >> 28 != 15 && node.end < lat.c2b.len() {
                let eb = lat.c2b[node.end];
                if eb < bytes.len() && !lat.can_bow[eb] {
                    return Err(("unexpected_candidate".into(), format!("dictionary word {:#x} at chars {}..{} ends before a character that cannot start a word", node.word_id, node.begin, node.end)));
                }
            }
        }
    }

    // out-of-vocabulary candidates carry the parameters of one of the configured OOV definitions
    let mut allowed: Vec<(i32, i32, i32)> = vec![];
    for line in world.unk_def.lines() {
        let c: Vec<&str> = line.split(',').collect();
        if c.len() >= 4 {
            if let (Ok(l), Ok(r), Ok(k)) = (c[1].parse::<i32>(), c[2].parse::<i32>(), c[3].parse::<i32>()) {
                allowed.push((l, r, k));
            }
        }
    }
    let sp = world.plugins.simple;
    allowed.push((sp.0 as i32, sp.1 as i32, sp.2 as i32));
    allowed.push((sp.0 as i32, sp.1 as i32, (sp.2 / 2) as i32));
    let mut oov_nodes = 0u64;
    for b in 0..lat.nodes.len() {
        for node in &lat.nodes[b] {
            if node.word_id >> 28 == 15 {
                oov_nodes += 1;
                let triple = (node.left_id as i32, node.right_id as i32, node.cost as i32);
                if !allowed.contains(&triple) {
                    return Err(("oov_params".into(), format!("OOV candidate [{}..{}] carries (left, right, cost) = {:?}, which no configured OOV definition declares", node.begin, node.end, triple)));
                }
            }
        }
    }
    rep.count("oov_candidates_checked_against_definitions", oov_nodes);

    // the mode-C result is the chain, with the recomputed cumulative costs
    if !path_rewrite {
        let obs = observe(&t.list);
        if obs.len() != path.len() {
            return Err(("result_vs_chain".into(), format!("result has {} morphemes, the best path has {} nodes", obs.len(), path.len())));
        }
        for (k, o) in obs.iter().enumerate() {
            let node = &lat.nodes[path[k].0][path[k].1];
            if o.word_id != node.word_id {
                return Err(("result_vs_chain".into(), format!("morpheme {} is word {:#x}, the best path has {:#x}", k, o.word_id, node.word_id)));
            }
            if o.total_cost as i64 != prefix[k] {
                return Err(("cumulative_cost".into(), format!("morpheme {} reports cumulative cost {} but the recomputed prefix sum is {}", k, o.total_cost, prefix[k])));
            }
        }
        if !obs.is_empty() {
            let ic = t.list.get_internal_cost() as i64;
            let exp = prefix[prefix.len() - 1] - prefix[0];
            if ic != exp {
                return Err(("cumulative_cost".into(), format!("get_internal_cost() = {} but last-first of the recomputed sums is {}", ic, exp)));
            }
        }
        rep.count("results_compared_with_chain", 1);
    } else {
        // path-rewrite plugins only merge neighbours: every reported morpheme ends where a node of the
        // chain ends, and its cumulative cost is the sum recomputed along the path up to that node
        let obs = observe(&t.list);
        let by_end: HashMap<usize, i64> = path.iter().zip(prefix.iter()).map(|((b, _), c)| (*b, *c)).collect();
        if obs.len() == t.nranges.len() {
            for (k, o) in obs.iter().enumerate() {
                if let Some(exp) = by_end.get(&t.nranges[k].1) {
                    if o.total_cost as i64 != *exp {
                        return Err(("cumulative_cost".into(), format!(
                            "morpheme {} ({:?}, after path rewriting) reports cumulative cost {} but the sum recomputed along the path up to its end is {}",
                            k, o.surface, o.total_cost, exp)));
                    }
                    rep.count("rewritten_results_cost_checked", 1);
                }
            }
        }
    }
    Ok(d.eos_max != d.eos_min)
}

/// The out-of-vocabulary part of the candidate set. The configured providers are asked directly, through the public
/// plugin trait, in the documented order: at every reachable position all providers in turn unless the character is
/// NOOOVBOW/NOOOVBOW2, each told the lengths (in characters) of the words that exist so far; then the last provider
/// once more when nothing exists. The OOV nodes of the lattice that begin there must be exactly what they returned.
/// Has to run before the results are collected (the input buffer moves into the list then).
pub fn check_oov_candidates(world: &World, t: &Tok, lat: &LatticeObs, rep: &mut Report) -> Result<(), (String, String)> {
    use sudachi::analysis::created::CreatedWords;
    use sudachi::analysis::node::{LatticeNode, RightId};
    use sudachi::analysis::stateless_tokenizer::DictionaryAccess;
    use sudachi::dic::category_type::CategoryType;
    use sudachi::input_text::InputTextIndex;
    let input = t.tok.verif_input();
    let provs = world.dict.oov_provider_plugins();
    if provs.is_empty() {
        return Ok(());
    }
    type K = (usize, u16, u16, i16, u32);
    let mut by_begin: HashMap<usize, (Vec<usize>, Vec<K>)> = HashMap::new();
    for b in 0..lat.nodes.len() {
        for n in &lat.nodes[b] {
            let e = by_begin.entry(n.begin).or_default();
            if n.word_id >> 28 == 15 {
                e.1.push((n.end, n.left_id, n.right_id, n.cost, n.word_id));
            } else {
                e.0.push(n.end - n.begin);
            }
        }
    }
    let mut positions = 0u64;
    let mut stopgaps = 0u64;
    for cb in 0..lat.nodes.len() - 1 {
        if !(cb == 0 || !lat.nodes[cb].is_empty()) {
            continue;
        }
        let (dict_lens, mut actual) = by_begin.remove(&cb).unwrap_or_default();
        let mut created = CreatedWords::empty();
        for l in &dict_lens {
            created = created.add_word(*l as i64);
        }
        let mut buf = vec![];
        let mut ask = |p: usize, created: CreatedWords, buf: &mut Vec<sudachi::analysis::Node>| -> Result<CreatedWords, (String, String)> {
            let start = buf.len();
            let n = provs[p].provide_oov(input, cb, created, buf).map_err(|e| ("oov_provider_error".to_string(), format!("provider {} asked directly at char {}: {:?}", p, cb, e)))?;
            let mut c = created;
            for node in &buf[start..start + n] {
                c = c.add_word((node.end() - node.begin()) as i64);
            }
            Ok(c)
        };
        if !input.cat_at_char(cb).intersects(CategoryType::NOOOVBOW | CategoryType::NOOOVBOW2) {
            for p in 0..provs.len() {
                created = ask(p, created, &mut buf)?;
            }
        }
        if created.is_empty() {
            stopgaps += 1;
            ask(provs.len() - 1, created, &mut buf)?;
        }
        let mut expected: Vec<K> = buf.iter().map(|n| (n.end(), n.left_id(), n.right_id(), n.cost(), n.word_id().as_raw())).collect();
        expected.sort();
        actual.sort();
        positions += 1;
        if expected != actual {
            return Err(("oov_candidate_set".into(), format!(
                "char {} (dictionary words of lengths {:?} start there): the providers, asked in the documented order with those lengths, return (end, left, right, cost, word id) {:?}; the lattice holds {:?}",
                cb, dict_lens, expected, actual)));
        }
    }
    rep.count("positions_oov_set_compared_with_providers", positions);
    rep.count("positions_served_by_the_last_provider_only", stopgaps);
    Ok(())
}

pub fn run(ctx: &Ctx, rep: &mut Report) {
    let n_worlds = ctx.n(400, 16000);
    let texts_per_world = if ctx.quick() { 30 } else { 80 };
    for wi in ctx.indices(n_worlds) {
        if ctx.out_of_time() {
            rep.notes.push(format!("stopped at world {} (time budget)", wi));
            break;
        }
        let mut rng = Rng::derive(ctx.seed, 0xC02, wi);
        rep.progress_idx(wi, "C02 world");
        let dopts = DictOpts { cost_extremes: wi % 2 == 0, max_entries: 50, ..DictOpts::default() };
        let path_rewrite = wi % 5 == 4;
        let world = match guard(|| build_world(&mut rng, &dopts, None, path_rewrite, Place::Owned)) {
            Ok(Ok(w)) => w,
            Ok(Err(e)) => {
                rep.count("worlds_rejected", 1);
                rep.notes.push(format!("world {}: {}", wi, clip(&e, 200)));
                continue;
            }
            Err(p) => {
                rep.skipped_panic(&p, json!({"world": wi, "stage": "build"}));
                continue;
            }
        };
        rep.count("worlds", 1);
        if world.matrix.nl != world.matrix.nr {
            rep.count("worlds_nonsquare_matrix", 1);
        }
        let has_pr = world.plugins.join_numeric.is_some() || world.plugins.join_katakana.is_some();
        let m = world.effective_matrix();
        let keys = world.keys();
        let mut t = Tok::new(&world.dict, Mode::C);
        for ti in 0..texts_per_world {
            let text = textgen::text_from_keys(&mut rng, &keys, 8);
            if text.chars().count() > 200 {
                continue;
            }
            rep.eval();
            t.tok.reset().push_str(&text);
            match guard(|| t.tok.do_tokenize()) {
                Err(p) => {
                    rep.skipped_panic(&p, json!({"world_index": wi, "text": text}));
                    t = Tok::new(&world.dict, Mode::C);
                    continue;
                }
                Ok(Err(_)) => {
                    rep.count("rejected_inputs", 1);
                    continue;
                }
                Ok(Ok(())) => {}
            }
            if t.tok.verif_input().current().is_empty() {
                rep.count("empty_normalized", 1);
                let _ = t.list.collect_results(&mut t.tok);
                // nothing to segment: no candidate words, so the (empty) minimum-cost path has no tokens
                if t.list.len() != 0 {
                    rep.violation("result_vs_chain", "empty input", &format!("the normalised text is empty but {} morphemes are reported", t.list.len()), "", json!({"world_index": wi, "text_index": ti, "text": text, "world": world.describe(true)}));
                }
                continue;
            }
            let lat = observe_lattice(&t);
            t.peek_ranges();
            let scenario = || json!({"world_index": wi, "text_index": ti, "text": text, "normalized": lat.normalized, "world": world.describe(true)});
            match guard(|| check_oov_candidates(&world, &t, &lat, rep)) {
                Err(p) => rep.violation("accessor_panic", &p.site, &p.msg, "", scenario()),
                Ok(Err((kind, msg))) => rep.violation(&kind, "check_oov_candidates", &msg, "", scenario()),
                Ok(Ok(())) => {}
            }
            if t.list.collect_results(&mut t.tok).is_err() {
                continue;
            }
            match guard(|| check_lattice(&world, &t, &lat, &m, has_pr, rep)) {
                Err(p) => rep.violation("accessor_panic", &p.site, &p.msg, "", scenario()),
                Ok(Err((kind, msg))) => rep.violation(&kind, "check_lattice", &msg, "", scenario()),
                Ok(Ok(nontrivial)) => {
                    if nontrivial {
                        rep.count("lattices_with_alternative_paths", 1);
                        rep.nontrivial(fnv(format!("{}|{}", wi, text).as_bytes()));
                        if rep.want_sample() {
                            let nn: usize = lat.nodes.iter().map(|v| v.len()).sum();
                            rep.sample(json!({"text": text, "normalized": lat.normalized, "lattice_nodes": nn,
                                "best_cost": lat.eos.map(|e| e.2), "matrix": format!("{}x{}", m.nl, m.nr)}));
                        }
                    }
                }
            }
        }
    }
}
