//! C15 — joined numerals are normalised to their decimal value.
//! Numerals are generated from a structure that also yields the expected rendering; no code
//! is shared with numeric_parser.

use serde_json::json;
use sudachi::analysis::Mode;

use crate::dictgen::{self, DictOpts};
use crate::env::Place;
use crate::model::{Entry, Lexicon};
use crate::report::{clip, guard, Report};
use crate::rng::{fnv, Rng};
use crate::scen::{build_world_from, observe, PluginOpts, Tok};
use crate::Ctx;

const KDIG: [char; 10] = ['〇', '一', '二', '三', '四', '五', '六', '七', '八', '九'];
const SMALL: [char; 3] = ['十', '百', '千'];
const LARGE: [(char, usize); 3] = [('万', 4), ('億', 8), ('兆', 12)];

fn digit(_rng: &mut Rng, d: u32, kanji: bool) -> char {
    if kanji {
        KDIG[d as usize]
    } else {
        char::from_digit(d, 10).unwrap()
    }
}

#[derive(Debug, Clone)]
pub struct Numeral {
    pub text: String,
    pub expected: String,
    pub shape: &'static str,
}

/// plain digit string with optional separators and fraction
fn gen_plain(rng: &mut Rng) -> Numeral {
    let kanji = rng.chance(1, 4);
    let n = match rng.below(6) {
        0 => 1,
        1 => 1 + rng.below(4),
        2 => 4 + rng.below(8),
        3 => 13 + rng.below(20),
        4 => 30 + rng.below(31),
        _ => 1 + rng.below(9),
    };
    let mut digits: Vec<u32> = (0..n).map(|_| rng.below(10) as u32).collect();
    let sep = n >= 4 && rng.chance(1, 3);
    if sep {
        // the leading group must not be all zeros
        let first = if n % 3 == 0 { 3 } else { n % 3 };
        if digits[..first].iter().all(|d| *d == 0) {
            digits[0] = 1 + rng.below(9) as u32;
        }
    } else if rng.chance(2, 3) && digits[0] == 0 && n > 1 {
        digits[0] = 1 + rng.below(9) as u32;
    }
    let mut text = String::new();
    let mut expected = String::new();
    for (i, d) in digits.iter().enumerate() {
        if sep && i > 0 && (n - i) % 3 == 0 {
            text.push(',');
        }
        text.push(digit(rng, *d, kanji && !sep));
        expected.push(char::from_digit(*d, 10).unwrap());
    }
    let mut shape = if sep { "plain+separators" } else { "plain" };
    if rng.chance(1, 4) {
        let fl = 1 + rng.below(5);
        let frac: Vec<u32> = (0..fl).map(|_| if rng.chance(1, 3) { 0 } else { rng.below(10) as u32 }).collect();
        text.push('.');
        for d in &frac {
            text.push(digit(rng, *d, kanji && !sep));
        }
        let mut f: String = frac.iter().map(|d| char::from_digit(*d, 10).unwrap()).collect();
        while f.ends_with('0') {
            f.pop();
        }
        if !f.is_empty() {
            expected.push('.');
            expected.push_str(&f);
        }
        shape = if sep { "plain+separators+fraction" } else { "plain+fraction" };
    }
    Numeral { text, expected, shape }
}

/// one 10^4 group (1..=9999) written with the small units; returns (text, ends_with_digit)
fn gen_group_units(rng: &mut Rng, value: u32) -> (String, bool) {
    let ds = [value / 1000, (value / 100) % 10, (value / 10) % 10, value % 10];
    let mut s = String::new();
    for (i, d) in ds.iter().enumerate().take(3) {
        if *d == 0 {
            continue;
        }
        if *d > 1 || rng.chance(1, 3) {
            let kj = rng.chance(3, 4);
            s.push(digit(rng, *d, kj));
        }
        s.push(SMALL[2 - i]);
    }
    if ds[3] != 0 {
        let kj = rng.chance(3, 4);
        s.push(digit(rng, ds[3], kj));
    }
    (s, ds[3] != 0)
}

fn gen_group_value(rng: &mut Rng) -> u32 {
    match rng.below(5) {
        0 => 1 + rng.below(9) as u32,
        1 => *rng.pick(&[10u32, 100, 1000, 1001, 1010, 1100, 9999, 110, 101, 11]),
        2 => 10 * (1 + rng.below(9) as u32) + rng.below(10) as u32,
        _ => 1 + rng.below(9999) as u32,
    }
}

/// numeral with units up to 兆
fn gen_units(rng: &mut Rng) -> Numeral {
    // which 10^4 slots are present: index 3 = 兆, 2 = 億, 1 = 万, 0 = ones
    let top = rng.below(4);
    let mut present = [false; 4];
    present[top] = true;
    for i in 0..top {
        present[i] = rng.chance(1, 2);
    }
    let mut text = String::new();
    let mut expected = String::new();
    let mut ends_with_digit = false;
    for slot in (0..=top).rev() {
        if !present[slot] {
            if slot < top {
                expected.push_str("0000");
            }
            continue;
        }
        let v = gen_group_value(rng);
        let plain = rng.chance(1, 4);
        let (g, ewd) = if plain {
            (v.to_string(), true)
        } else {
            gen_group_units(rng, v)
        };
        text.push_str(&g);
        ends_with_digit = ewd;
        if slot == top {
            expected.push_str(&v.to_string());
        } else {
            expected.push_str(&format!("{:04}", v));
        }
        if slot > 0 {
            text.push(LARGE[slot - 1].0);
            ends_with_digit = false;
        }
    }
    let mut shape = "units";
    if ends_with_digit && rng.chance(1, 4) {
        let fl = 1 + rng.below(3);
        let frac: Vec<u32> = (0..fl).map(|_| rng.below(10) as u32).collect();
        text.push('.');
        for d in &frac {
            let kj = rng.chance(1, 2);
            text.push(digit(rng, *d, kj));
        }
        let mut f: String = frac.iter().map(|d| char::from_digit(*d, 10).unwrap()).collect();
        while f.ends_with('0') {
            f.pop();
        }
        if !f.is_empty() {
            expected.push('.');
            expected.push_str(&f);
        }
        shape = "units+fraction";
    }
    Numeral { text, expected, shape }
}

/// decimal coefficient of one large unit: "1.5万" = 15000, "3.14159万" = 31415.9
fn gen_decimal_unit(rng: &mut Rng) -> Numeral {
    let il = 1 + rng.below(3);
    let fl = 1 + rng.below(6);
    let mut int: Vec<u32> = (0..il).map(|_| rng.below(10) as u32).collect();
    if int[0] == 0 {
        int[0] = 1 + rng.below(9) as u32;
    }
    let frac: Vec<u32> = (0..fl).map(|_| rng.below(10) as u32).collect();
    let (uc, k) = LARGE[rng.below(3)];
    let mut text = String::new();
    for d in &int {
        let kj = rng.chance(1, 4);
        text.push(digit(rng, *d, kj));
    }
    text.push('.');
    for d in &frac {
        let kj = rng.chance(1, 4);
        text.push(digit(rng, *d, kj));
    }
    text.push(uc);
    Numeral { text, expected: shift_decimal(&int, &frac, k), shape: "decimal-coefficient" }
}

/// I.F x 10^k as a decimal string (trailing fractional zeros dropped)
fn shift_decimal(int: &[u32], frac: &[u32], k: usize) -> String {
    let mut digits: Vec<u32> = int.to_vec();
    digits.extend_from_slice(frac);
    let point = int.len() + k;
    while digits.len() < point {
        digits.push(0);
    }
    let mut s: String = digits[..point].iter().map(|d| char::from_digit(*d, 10).unwrap()).collect();
    let mut f: String = digits[point..].iter().map(|d| char::from_digit(*d, 10).unwrap()).collect();
    while f.ends_with('0') {
        f.pop();
    }
    if !f.is_empty() {
        s.push('.');
        s.push_str(&f);
    }
    s
}

#[derive(Debug, PartialEq)]
pub enum Eval {
    Value(String),
    Malformed(&'static str),
    Unspecified,
}

fn dval(c: char) -> Option<u32> {
    c.to_digit(10).or_else(|| KDIG.iter().position(|k| *k == c).map(|p| p as u32))
}

/// Independent evaluator of a token over the numeral alphabet
pub fn evaluate(tok: &str) -> Eval {
    let chars: Vec<char> = tok.chars().collect();
    if chars.is_empty() {
        return Eval::Unspecified;
    }
    let npoints = chars.iter().filter(|c| **c == '.').count();
    if tok.contains("..") {
        return Eval::Malformed("two adjacent points");
    }
    if npoints > 1 {
        // e.g. a decimal coefficient of a large unit followed by a fraction: not defined by the statement
        return Eval::Unspecified;
    }
    if chars[0] == '.' || chars[chars.len() - 1] == '.' {
        return Eval::Malformed("dangling point");
    }
    if chars[0] == ',' || chars[chars.len() - 1] == ',' {
        return Eval::Malformed("dangling separator");
    }
    // <digits>.<digits><large unit>
    if npoints == 1 {
        let last = chars[chars.len() - 1];
        if let Some(li) = LARGE.iter().position(|l| l.0 == last) {
            let body = &chars[..chars.len() - 1];
            let p = body.iter().position(|c| *c == '.').unwrap_or(0);
            let (i, f) = (&body[..p], &body[p + 1..]);
            if !i.is_empty() && !f.is_empty() && i.iter().chain(f.iter()).all(|c| dval(*c).is_some()) && dval(i[0]) != Some(0) {
                let iv: Vec<u32> = i.iter().map(|c| dval(*c).unwrap()).collect();
                let fv: Vec<u32> = f.iter().map(|c| dval(*c).unwrap()).collect();
                return Eval::Value(shift_decimal(&iv, &fv, LARGE[li].1));
            }
        }
    }
    let (int_part, frac_part): (Vec<char>, Vec<char>) = match chars.iter().position(|c| *c == '.') {
        Some(p) => (chars[..p].to_vec(), chars[p + 1..].to_vec()),
        None => (chars.clone(), vec![]),
    };
    if let Some(c0) = frac_part.first() {
        if SMALL.contains(c0) || LARGE.iter().any(|l| l.0 == *c0) {
            // "8.万5", "八.千": the point is followed by a unit instead of a digit
            return Eval::Malformed("dangling point");
        }
    }
    let mut frac = String::new();
    for c in &frac_part {
        match dval(*c) {
            Some(d) => frac.push(char::from_digit(d, 10).unwrap()),
            None => return if *c == ',' { Eval::Malformed("separator in fraction") } else { Eval::Unspecified },
        }
    }
    while frac.ends_with('0') {
        frac.pop();
    }
    let has_unit = int_part.iter().any(|c| SMALL.contains(c) || LARGE.iter().any(|l| l.0 == *c));
    let int_val: String;
    if int_part.contains(&',') {
        if has_unit {
            // separators inside the coefficient of a unit ("2,300万", "2,30万"): the value of the well-formed spelling is not
            // defined by the statement, but a group of other than three digits after a separator (or a separator with no
            // 1-3 digits before it) is a bad separator position wherever it stands
            let s: String = int_part.iter().collect();
            for run in s.split(|c: char| SMALL.contains(&c) || LARGE.iter().any(|l| l.0 == c)) {
                if !run.contains(',') {
                    continue;
                }
                for (i, g) in run.split(',').enumerate() {
                    if g.chars().any(|c| dval(c).is_none()) {
                        return Eval::Unspecified;
                    }
                    let n = g.chars().count();
                    if i == 0 {
                        if n == 0 || n > 3 {
                            return Eval::Malformed("leading separator group");
                        }
                    } else if n != 3 {
                        return Eval::Malformed("separator group is not three digits");
                    }
                }
            }
            return Eval::Unspecified;
        }
        let s: String = int_part.iter().collect();
        let groups: Vec<&str> = s.split(',').collect();
        for (i, g) in groups.iter().enumerate() {
            let n = g.chars().count();
            if g.chars().any(|c| dval(c).is_none()) {
                return Eval::Unspecified;
            }
            if i == 0 {
                if n == 0 || n > 3 {
                    return Eval::Malformed("leading separator group");
                }
            } else if n != 3 {
                return Eval::Malformed("separator group is not three digits");
            }
        }
        if groups[0].chars().all(|c| dval(c) == Some(0)) {
            return Eval::Unspecified;
        }
        int_val = s.chars().filter(|c| *c != ',').map(|c| char::from_digit(dval(c).unwrap(), 10).unwrap()).collect();
    } else if !has_unit {
        if int_part.iter().any(|c| dval(*c).is_none()) {
            return Eval::Unspecified;
        }
        int_val = int_part.iter().map(|c| char::from_digit(dval(*c).unwrap(), 10).unwrap()).collect();
    } else {
        // unit form: groups separated by large units in strictly descending order
        let mut slots: [Option<u32>; 4] = [None; 4];
        let mut cur: Vec<char> = vec![];
        let mut last_large = 4usize;
        let mut finish = |cur: &mut Vec<char>, slot: usize, slots: &mut [Option<u32>; 4]| -> Result<(), Eval> {
            // parse one group: (digit? small)* digit?  with descending small units, or 1-4 plain digits
            if cur.is_empty() {
                return Err(Eval::Malformed("large unit without a value"));
            }
            let v: u32;
            if cur.iter().all(|c| dval(*c).is_some()) {
                if cur.len() > 4 && dval(cur[0]) != Some(0) {
                    return Err(Eval::Malformed("__long_group"));
                }
                if cur.len() > 4 || (cur.len() > 1 && dval(cur[0]) == Some(0)) {
                    return Err(Eval::Unspecified);
                }
                v = cur.iter().fold(0, |a, c| a * 10 + dval(*c).unwrap());
            } else {
                let mut acc = 0u32;
                let mut last_small = 3usize;
                let mut pending: Option<u32> = None;
                for c in cur.iter() {
                    if let Some(d) = dval(*c) {
                        if pending.is_some() {
                            return Err(Eval::Unspecified);
                        }
                        pending = Some(d);
                    } else if let Some(si) = SMALL.iter().position(|s| s == c) {
                        if si >= last_small {
                            return Err(Eval::Malformed("small units out of order or repeated"));
                        }
                        let coef = pending.take().unwrap_or(1);
                        if coef == 0 {
                            return Err(Eval::Unspecified);
                        }
                        acc += coef * 10u32.pow(si as u32 + 1);
                        last_small = si;
                    } else {
                        return Err(Eval::Unspecified);
                    }
                }
                if let Some(d) = pending {
                    if d == 0 {
                        return Err(Eval::Unspecified);
                    }
                    acc += d;
                }
                v = acc;
            }
            if v == 0 {
                return Err(Eval::Unspecified);
            }
            slots[slot] = Some(v);
            cur.clear();
            Ok(())
        };
        for c in int_part.iter() {
            if let Some(li) = LARGE.iter().position(|l| l.0 == *c) {
                let slot = li + 1;
                if slot >= last_large {
                    return Eval::Malformed("large units out of order or repeated");
                }
                if let Err(e) = finish(&mut cur, slot, &mut slots) {
                    return long_group(e, &int_part, &frac_part);
                }
                last_large = slot;
            } else {
                cur.push(*c);
            }
        }
        if !cur.is_empty() {
            if let Err(e) = finish(&mut cur, 0, &mut slots) {
                return long_group(e, &int_part, &frac_part);
            }
        }
        let top = (0..4).rev().find(|i| slots[*i].is_some()).unwrap();
        let mut s = slots[top].unwrap().to_string();
        for i in (0..top).rev() {
            s.push_str(&format!("{:04}", slots[i].unwrap_or(0)));
        }
        let ends_with_digit = int_part.last().map(|c| dval(*c).is_some()).unwrap_or(false);
        if !frac_part.is_empty() && !ends_with_digit {
            // a fraction after a unit ("二十.五"): not defined by the statement's examples
            return Eval::Unspecified;
        }
        int_val = s;
    }
    if frac.is_empty() {
        Eval::Value(int_val)
    } else {
        Eval::Value(format!("{}.{}", int_val, frac))
    }
}

/// A plain digit group of more than four digits next to large units ("3万12345", "1兆12345", "12345万"): the strict
/// grammar does not cover it, but digits and units only ever add up, so if such a text is joined its value is the sum.
fn long_group(e: Eval, int_part: &[char], frac_part: &[char]) -> Eval {
    if e != Eval::Malformed("__long_group") {
        return e;
    }
    if !frac_part.is_empty() {
        return Eval::Unspecified;
    }
    let mut total: u128 = 0;
    let mut group: u128 = 0;
    let mut pending: Option<u128> = None;
    let mut digits_in_group = 0;
    for c in int_part {
        if let Some(d) = dval(*c) {
            let p = pending.unwrap_or(0);
            if digits_in_group > 30 {
                return Eval::Unspecified;
            }
            pending = Some(p * 10 + d as u128);
            digits_in_group += 1;
        } else if let Some(si) = SMALL.iter().position(|s| s == c) {
            group += pending.take().unwrap_or(1) * 10u128.pow(si as u32 + 1);
            digits_in_group = 0;
        } else if let Some(li) = LARGE.iter().position(|l| l.0 == *c) {
            group += pending.take().unwrap_or(0);
            let m = 10u128.pow(4 * (li as u32 + 1));
            total = match group.checked_mul(m).and_then(|x| total.checked_add(x)) {
                Some(t) => t,
                None => return Eval::Unspecified,
            };
            group = 0;
            digits_in_group = 0;
        } else {
            return Eval::Unspecified;
        }
    }
    group += pending.take().unwrap_or(0);
    match total.checked_add(group) {
        Some(t) => Eval::Value(t.to_string()),
        None => Eval::Unspecified,
    }
}

fn mutate(rng: &mut Rng, n: &Numeral) -> String {
    let mut cs: Vec<char> = n.text.chars().collect();
    match rng.below(8) {
        0 => {
            let p = rng.below(cs.len() + 1);
            cs.insert(p, ',');
        }
        1 => {
            let p = rng.below(cs.len() + 1);
            cs.insert(p, '.');
        }
        2 => {
            let p = rng.below(cs.len() + 1);
            cs.insert(p, *rng.pick(&['十', '百', '千', '万', '億', '兆']));
        }
        3 if cs.len() > 1 => {
            let p = rng.below(cs.len());
            cs.remove(p);
        }
        4 if cs.len() > 1 => {
            let p = rng.below(cs.len() - 1);
            cs.swap(p, p + 1);
        }
        5 => {
            let p = rng.below(cs.len());
            let c = cs[p];
            cs.insert(p, c);
        }
        6 => {
            cs.push(*rng.pick(&[',', '.', '万', '0']));
        }
        _ => {
            cs.insert(0, *rng.pick(&[',', '.', '〇']));
        }
    }
    cs.into_iter().collect()
}

/// digits in comma-separated groups of which at least one has the wrong size, with well-formed groups around it
fn gen_bad_grouping(rng: &mut Rng) -> String {
    let mut groups: Vec<String> = vec![];
    let first_len = 1 + rng.below(3);
    let mut first = String::new();
    first.push(*rng.pick(&['1', '2', '5', '9']));
    for _ in 1..first_len {
        first.push(*rng.pick(&['0', '1', '3', '7']));
    }
    groups.push(first);
    let n = 2 + rng.below(3);
    let bad = rng.below(n);
    for g in 0..n {
        let len = if g == bad { *rng.pick(&[1usize, 2, 4]) } else { 3 };
        groups.push((0..len).map(|_| *rng.pick(&['0', '4', '5', '6', '8'])).collect());
    }
    groups.join(",")
}

fn fullwidth(s: &str) -> String {
    s.chars()
        .map(|c| match c {
            '0'..='9' => char::from_u32(c as u32 - '0' as u32 + '０' as u32).unwrap(),
            ',' => '，',
            '.' => '．',
            c => c,
        })
        .collect()
}

pub fn run(ctx: &Ctx, rep: &mut Report) {
    let n_worlds = ctx.n(320, 16000);
    let pool = dictgen::pos_pool();
    let probe_world = ctx.shard == 0 && ctx.only.is_none();
    for wi in ctx.indices(n_worlds) {
        if ctx.out_of_time() {
            rep.notes.push(format!("stopped at world {} (time budget)", wi));
            break;
        }
        let mut rng = Rng::derive(ctx.seed, 0xC15, wi);
        rep.progress_idx(wi, "C15 world");
        let dopts = DictOpts { splits: false, ..DictOpts::default() };
        let matrix = dictgen::gen_matrix(&mut rng, &dopts);
        let nid = matrix.nid() as i64;
        let mut lex = Lexicon::default();
        // anchors: noun, numeral, symbol POS
        let ctx_words = ["約", "は", "に", "円", "です", "と", "x"];
        for (i, w) in ctx_words.iter().enumerate() {
            let p = if i == 1 { &pool[6] } else { &pool[0] };
            lex.entries.push(Entry::simple(w, rng.range(0, nid - 1) as i16, rng.range(0, nid - 1) as i16, rng.range(0, 300) as i16, p));
        }
        for c in "0123456789〇一二三四五六七八九十百千万億兆".chars() {
            lex.entries.push(Entry::simple(&c.to_string(), rng.range(0, nid - 1) as i16, rng.range(0, nid - 1) as i16, rng.range(0, 300) as i16, &pool[1]));
        }
        // without the normalising input plugin the dictionary itself maps full-width digits and separators to their
        // normal forms (the numeral is read from the words' normalised forms)
        if wi % 2 == 1 {
            for (k, c) in "０１２３４５６７８９".chars().enumerate() {
                let mut e = Entry::simple(&c.to_string(), rng.range(0, nid - 1) as i16, rng.range(0, nid - 1) as i16, rng.range(0, 300) as i16, &pool[1]);
                e.norm = k.to_string();
                lex.entries.push(e);
            }
            for (c, n) in [("，", ","), ("．", ".")] {
                let mut e = Entry::simple(c, rng.range(0, nid - 1) as i16, rng.range(0, nid - 1) as i16, rng.range(0, 300) as i16, &pool[2]);
                e.norm = n.to_string();
                lex.entries.push(e);
            }
        }
        // multi-character words that begin with a numeral character: very cheap, so that they are on the best path
        for w in ["一般", "十日", "千葉", "百貨店"] {
            lex.entries.push(Entry::simple(w, rng.range(0, nid - 1) as i16, rng.range(0, nid - 1) as i16, -6000, &pool[0]));
        }
        for c in [",", "."] {
            lex.entries.push(Entry::simple(c, rng.range(0, nid - 1) as i16, rng.range(0, nid - 1) as i16, rng.range(0, 300) as i16, &pool[2]));
        }
        // every third world: cheap multi-character numeral entries with declared A/B units (二十 = 二/十 ...): a joined
        // numeral that begins with one of them is one token in every mode, it does not take over the units of its first part
        if wi % 3 == 0 {
            let row_of = |c: char| 7 + "0123456789〇一二三四五六七八九十百千万億兆".chars().position(|x| x == c).unwrap();
            for w in ["二十", "百万", "三千", "五百", "十万"] {
                let mut e = Entry::simple(w, rng.range(0, nid - 1) as i16, rng.range(0, nid - 1) as i16, -3000, &pool[1]);
                e.mode = "C";
                e.split_a = w.chars().map(|c| crate::model::Ref { dic: 0, row: row_of(c), inline: false }).collect();
                e.split_b = e.split_a.clone();
                lex.entries.push(e);
            }
            rep.count("worlds_with_numeral_entries_that_declare_units", 1);
        }
        let mut p = PluginOpts::none();
        p.join_numeric = Some(true);
        p.default_input = wi % 2 == 0;
        p.simple = (0, 0, 25000);
        let default_input = p.default_input;
        let world = match guard(|| build_world_from(&mut rng, &dopts, matrix, lex, p, Place::Owned)) {
            Ok(Ok(w)) => w,
            Ok(Err(e)) => {
                rep.notes.push(format!("world {}: {}", wi, clip(&e, 200)));
                continue;
            }
            Err(p) => {
                rep.skipped_panic(&p, json!({"world": wi}));
                continue;
            }
        };
        rep.count("worlds", 1);
        if probe_world && wi == 0 {
            // labelled probe of the known finding D22: a repeated large unit that fits into the
            // trailing zeros of the previous group is added to it
            let mut pt = Tok::new(&world.dict, Mode::C);
            let text = "十兆九兆";
            if let Ok(Ok(())) = guard(|| pt.run(text)) {
                let obs = observe(&pt.list);
                rep.count("probe_scenarios", 1);
                if obs.len() == 1 {
                    rep.violation("malformed_joined", "JoinNumericPlugin", &format!("malformed numeral {:?} (large unit repeated) was joined into one token with normalised form {:?}", text, obs[0].norm), "D22", json!({"text": text, "config": world.cfg_json}));
                }
            }
        }
        let mut t = Tok::new(&world.dict, *rng.pick(&[Mode::A, Mode::B, Mode::C]));
        for ti in 0..80 {
            // a text with 1-3 numerals separated by context words
            let k = 1 + rng.below(3);
            let mut text = String::new();
            let mut spans: Vec<(usize, usize, Option<Numeral>, String)> = vec![];
            if rng.chance(1, 2) {
                text.push_str(rng.s(&["約", "は", "x"]));
            }
            for j in 0..k {
                let n = match rng.below(9) {
                    0 => gen_decimal_unit(&mut rng),
                    1..=4 => gen_plain(&mut rng),
                    _ => gen_units(&mut rng),
                };
                let malformed = rng.chance(1, 4);
                let raw = if malformed {
                    match rng.below(7) {
                        0 | 1 => gen_bad_grouping(&mut rng),
                        // a badly grouped coefficient directly before a unit ("2,30万", "1,2千", "12,3456億5")
                        6 => format!("{}{}{}", if rng.chance(1, 2) { gen_bad_grouping(&mut rng) } else { format!("{},{}", rng.s(&["1", "2", "12", "305"]), rng.s(&["3", "30", "3456", "00", "七", "二〇"])) },
                            rng.s(&["十", "百", "千", "万", "億", "兆"]), rng.s(&["", "", "5", "2千", "3,000"])),
                        // a point directly followed by a unit, then more digits / units
                        2 => format!("{}.{}{}", rng.s(&["8", "3", "12", "二", "1,000"]), rng.s(&["十", "百", "千", "万", "億", "兆"]), rng.s(&["5", "2千万", "五千億", "", "00", "3.5"])),
                        // a plain digit group that is too long for the unit before it (or just long)
                        3 => format!("{}{}{}", rng.s(&["3", "12", "二十", "5千"]), rng.s(&["万", "億", "兆"]), rng.s(&["12345", "123456789", "99999", "1234567890123"])),
                        _ => mutate(&mut rng, &n),
                    }
                } else {
                    n.text.clone()
                };
                let spelled = if rng.chance(1, 3) { fullwidth(&raw) } else { raw.clone() };
                let start = text.len();
                text.push_str(&spelled);
                spans.push((start, text.len(), if malformed { None } else { Some(n) }, raw));
                if j + 1 < k || rng.chance(1, 2) {
                    text.push_str(rng.s(&["に", "円", "です", "と", "は", "一般", "十日", "千葉", "百貨店"]));
                }
            }
            rep.eval();
            match guard(|| t.run(&text)) {
                Ok(Ok(())) => {}
                Ok(Err(_)) => continue,
                Err(p) => {
                    rep.skipped_panic(&p, json!({"text": text}));
                    t = Tok::new(&world.dict, Mode::C);
                    continue;
                }
            }
            let obs = match guard(|| observe(&t.list)) {
                Ok(o) => o,
                Err(p) => {
                    rep.skipped_panic(&p, json!({"text": text, "stage": "accessors"}));
                    continue;
                }
            };
            let scen = || json!({"world_index": wi, "text_index": ti, "text": text, "tokens": obs.iter().map(|o| json!([o.surface, o.norm])).collect::<Vec<_>>(), "config": world.cfg_json});
            for (start, end, num, raw) in &spans {
                let toks: Vec<_> = obs.iter().filter(|o| o.begin >= *start && o.end <= *end && o.end > o.begin).collect();
                match num {
                    Some(n) => {
                        rep.count("wellformed_numerals_checked", 1);
                        rep.count(&format!("shape_{}", n.shape), 1);
                        if toks.len() != 1 || toks[0].begin != *start || toks[0].end != *end {
                            rep.violation("not_joined", "JoinNumericPlugin", &format!("well-formed numeral {:?} (value {}) is reported as {} tokens: {:?}", n.text, n.expected, toks.len(), toks.iter().map(|t| t.surface.clone()).collect::<Vec<_>>()), "", scen());
                        } else if toks[0].norm != n.expected {
                            rep.violation("wrong_value", "JoinNumericPlugin", &format!("numeral {:?}: normalised form {:?}, expected {:?}", n.text, toks[0].norm, n.expected), "", scen());
                        } else {
                            rep.nontrivial(fnv(n.text.as_bytes()));
                        }
                        // the generator and the independent evaluator must agree (self-check of the oracle)
                        if evaluate(&n.text) != Eval::Value(n.expected.clone()) {
                            rep.notes.push(format!("oracle self-check: evaluator gives {:?} for generated {:?} (expected {})", evaluate(&n.text), n.text, n.expected));
                            rep.count("oracle_self_check_disagreements", 1);
                        }
                    }
                    None => {
                        rep.count("mutated_numerals_checked", 1);
                        // a run of digits and thousands separators only whose grouping is bad (leading / trailing separators
                        // aside): the text is left as separate pieces, so no token may reach across a separator
                        let core = raw.trim_matches(',');
                        let bad_grouping = core.contains(',') && core.chars().all(|c| c.is_ascii_digit() || c == ',') && matches!(evaluate(core), Eval::Malformed(_));
                        if bad_grouping {
                            rep.count("bad_separator_groupings_checked", 1);
                            for tk in &toks {
                                let inner: Vec<char> = tk.surface.chars().collect();
                                let spans_sep = inner.len() >= 3 && inner[1..inner.len() - 1].iter().any(|c| *c == ',' || *c == '，');
                                if spans_sep {
                                    rep.violation("malformed_joined", "JoinNumericPlugin", &format!("in the malformed grouping {:?} the piece {:?} is joined across a thousands separator (normalised form {:?})", raw, tk.surface, tk.norm), "", scen());
                                }
                            }
                        }
                        for tk in toks {
                            // the token's text in normalised spelling
                            let surf: String = tk.surface.chars().map(|c| match c {
                                '０'..='９' => char::from_u32(c as u32 - '０' as u32 + '0' as u32).unwrap(),
                                '，' => ',',
                                '．' => '.',
                                c => c,
                            }).collect();
                            if surf.chars().count() < 2 {
                                continue;
                            }
                            if tk.word_id != 0xffff_ffff {
                                // a dictionary word left as it was (the run around it was not joined): not a joined numeral
                                rep.count("dictionary_words_inside_runs_that_were_not_joined", 1);
                                continue;
                            }
                            match evaluate(&surf) {
                                Eval::Value(v) => {
                                    rep.count("joined_tokens_evaluated", 1);
                                    if tk.norm != v {
                                        rep.violation("wrong_value", "JoinNumericPlugin", &format!("joined token {:?} has normalised form {:?} but its value is {}", tk.surface, tk.norm, v), "", scen());
                                    }
                                }
                                Eval::Malformed(why) if why == "large units out of order or repeated" => {
                                    rep.count("joined_tokens_in_the_D22_region_not_judged", 1);
                                }
                                Eval::Malformed(why) => {
                                    rep.violation("malformed_joined", "JoinNumericPlugin", &format!("malformed numeral {:?} ({}) was joined into one token with normalised form {:?}", tk.surface, why, tk.norm), "", scen());
                                }
                                Eval::Unspecified => rep.count("joined_tokens_of_unspecified_shape", 1),
                            }
                        }
                    }
                }
            }
            if rep.want_sample() && spans.len() >= 2 {
                rep.sample(json!({"text": text, "tokens": obs.iter().map(|o| json!([o.surface, o.norm])).collect::<Vec<_>>()}));
            }
        }
    }
}
