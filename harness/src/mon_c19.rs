//! C19 — Python bindings and the CLI report exactly what the core library computes.
//! The worker writes a scenario directory, computes the expected results in-process with the
//! library, then drives the freshly built `sudachi` CLI and the sudachipy extension (child processes).

use serde_json::{json, Value};
use std::io::Write;
use std::process::{Command, Stdio};
use sudachi::analysis::Mode;
use sudachi::prelude::MorphemeList;
use sudachi::sentence_splitter::{SentenceSplitter, SplitSentences};

use crate::dictgen::DictOpts;
use crate::env::Place;
use crate::report::{clip, guard, Report};
use crate::rng::{fnv, Rng};
use crate::scen::{mode_name, observe, Obs, Tok, World, MODES};
use crate::textgen;
use crate::Ctx;

fn expected_case(world: &World, text: &str, mode: Mode) -> Value {
    let mut t = Tok::new(&world.dict, mode);
    if t.run(text).is_err() {
        return json!({"text": text, "mode": mode_name(mode), "expected": null});
    }
    let obs = observe(&t.list);
    let mut sub = MorphemeList::empty(&world.dict);
    let mut ms = vec![];
    for (i, o) in obs.iter().enumerate() {
        let mut splits = vec![];
        for sm in [Mode::A, Mode::B] {
            sub.clear();
            let mut v = vec![];
            if let Ok(true) = t.list.split_into(sm, i, &mut sub) {
                for s in observe(&sub) {
                    v.push(json!([s.surface, s.word_id, s.begin_c, s.end_c]));
                }
            }
            splits.push(v);
        }
        let m = t.list.get(i);
        let wi = m.get_word_info();
        let raw = |v: &[sudachi::dic::word_id::WordId]| v.iter().map(|w| w.as_raw()).collect::<Vec<u32>>();
        let word_info = json!({
            "surface": wi.surface(), "head_word_length": wi.head_word_length(), "pos_id": wi.pos_id(), "normalized_form": wi.normalized_form(),
            "dictionary_form_word_id": wi.dictionary_form_word_id(), "dictionary_form": wi.dictionary_form(), "reading_form": wi.reading_form(),
            "a_unit_split": raw(wi.a_unit_split()), "b_unit_split": raw(wi.b_unit_split()), "word_structure": raw(wi.word_structure()),
            "synonym_group_ids": wi.synonym_group_ids(),
        });
        ms.push(json!({
            "word_info": word_info,
            "surface": o.surface, "raw_surface": o.surface, "pos": o.pos, "pos_id": o.pos_id, "dictionary_form": o.dict_form,
            "normalized_form": o.norm, "reading_form": o.reading, "word_id": o.word_id, "dictionary_id": o.dic_id, "is_oov": o.is_oov,
            "synonym_group_ids": o.synonyms, "begin": o.begin_c, "end": o.end_c, "split_A": splits[0], "split_B": splits[1],
        }));
    }
    // the list-level cost: null where the library itself cannot compute it (known finding D19 region)
    let internal_cost = crate::report::guard(|| t.list.get_internal_cost()).ok();
    json!({"text": text, "mode": mode_name(mode), "expected": ms, "internal_cost": internal_cost})
}

fn render_simple(obs: &[Obs], all: bool, out: &mut String) {
    for o in obs {
        out.push_str(&format!("{}\t{}\t{}", o.surface, o.pos.join(","), o.norm));
        if all {
            out.push_str(&format!("\t{}\t{}\t{}\t{:?}", o.dict_form, o.reading, o.dic_id, o.synonyms));
            if o.is_oov {
                out.push_str("\t(OOV)");
            }
        }
        out.push('\n');
    }
    out.push_str("EOS\n");
}

fn render_wakati(obs: &[Obs], out: &mut String) {
    if obs.is_empty() {
        out.push('\n');
        return;
    }
    out.push_str(&obs.iter().map(|o| o.surface.as_str()).collect::<Vec<_>>().join(" "));
    out.push('\n');
}

/// what the documented behaviour of the CLI gives for a whole input file
fn expected_cli(world: &World, content: &str, mode: Mode, fmt: &str, split: &str) -> Option<String> {
    let mut out = String::new();
    let mut t = Tok::new(&world.dict, mode);
    let splitter = SentenceSplitter::new().with_checker(world.dict.lexicon());
    for raw in content.split_inclusive('\n') {
        // each input line without its line terminator
        let line = raw.strip_suffix('\n').unwrap_or(raw);
        let line = if raw.ends_with('\n') { line.strip_suffix('\r').unwrap_or(line) } else { line };
        let pieces: Vec<String> = match split {
            "no" => vec![line.to_string()],
            _ => splitter.split(line).map(|(_, s)| s.to_string()).collect(),
        };
        if split == "only" {
            for p in pieces {
                out.push_str(&p);
            }
            continue;
        }
        for p in pieces {
            t.run(&p).ok()?;
            let obs = observe(&t.list);
            match fmt {
                "w" => render_wakati(&obs, &mut out),
                "a" => render_simple(&obs, true, &mut out),
                _ => render_simple(&obs, false, &mut out),
            }
        }
    }
    Some(out)
}

/// For files with a line the library rejects (too long, --split-sentences no): what a tool that carries on may print -
/// the rejected line contributes nothing, or what an empty analysis contributes
fn expected_cli_with_rejected(world: &World, content: &str, mode: Mode, fmt: &str) -> Option<(String, String, usize)> {
    let (mut a, mut b) = (String::new(), String::new());
    let mut rejected = 0;
    let mut t = Tok::new(&world.dict, mode);
    for raw in content.split_inclusive('\n') {
        let line = raw.strip_suffix('\n').unwrap_or(raw);
        let line = if raw.ends_with('\n') { line.strip_suffix('\r').unwrap_or(line) } else { line };
        let mut piece = String::new();
        let ok = t.run(line).is_ok();
        if !ok {
            rejected += 1;
            t = Tok::new(&world.dict, mode);
            t.run("").ok()?;
        }
        let obs = observe(&t.list);
        match fmt {
            "w" => render_wakati(&obs, &mut piece),
            "a" => render_simple(&obs, true, &mut piece),
            _ => render_simple(&obs, false, &mut piece),
        }
        if ok {
            a.push_str(&piece);
        }
        b.push_str(&piece);
    }
    Some((a, b, rejected))
}

fn gen_file(rng: &mut Rng, keys: &[String]) -> String {
    let mut s = String::new();
    let n = 1 + rng.below(7);
    for i in 0..n {
        match rng.below(6) {
            0 => {} // blank line
            1 => s.push_str(rng.s(&["123", "1,000", "10.32", "0", "3,21"])),
            _ => {
                for _ in 0..1 + rng.below(3) {
                    s.push_str(&textgen::text_from_keys(rng, keys, 5).replace(['\n', '\r'], ""));
                    if rng.chance(1, 2) {
                        s.push_str(rng.s(&["。", "！", "?", "。」", ""]));
                    }
                }
            }
        }
        // a carriage return that is part of the line's content (only one CR directly before the LF is the terminator)
        if rng.chance(1, 8) {
            s.push_str(rng.s(&["\r", "\r\r", "a\r", "\rあ"]));
        }
        let last = i + 1 == n;
        if !(last && rng.chance(1, 3)) {
            s.push_str(if rng.chance(1, 4) { "\r\n" } else { "\n" });
        }
    }
    s
}

pub fn run(ctx: &Ctx, rep: &mut Report) {
    let cli = std::env::var("VH_CLI").unwrap_or_default();
    let pypkg = std::env::var("VH_PYPKG").unwrap_or_default();
    let driver = std::env::var("VH_PYDRIVER").unwrap_or_else(|_| "/verif/py/drive.py".to_string());
    if cli.is_empty() || pypkg.is_empty() {
        rep.notes.push("VH_CLI / VH_PYPKG not set".to_string());
        return;
    }
    let threads_stage = ctx.stage == "pythreads";
    let n_worlds = if threads_stage { ctx.n(16, 160) } else { ctx.n(64, 3200) };
    for wi in ctx.indices(n_worlds) {
        if ctx.out_of_time() {
            rep.notes.push(format!("stopped at scenario {} (time budget)", wi));
            break;
        }
        let mut rng = Rng::derive(ctx.seed, 0xC19, wi);
        rep.progress_idx(wi, "C19 scenario");
        // (every fourth system dictionary has no symbol POS: the POS that helper configurations like to name is then absent)
        let dopts = DictOpts { max_entries: 30, no_symbol_pos: wi % 4 == 1, ..DictOpts::default() };
        let world = match guard(|| {
            let matrix = crate::dictgen::gen_matrix(&mut rng, &dopts);
            let mut sys = crate::dictgen::gen_system(&mut rng, &dopts, &matrix);
            let pool = crate::dictgen::pos_pool();
            let nid = matrix.nid() as i64;
            // numeral-POS words so that numeral joining really happens (the CLI's -w must still report it)
            for c in "0123,.".chars() {
                let p = if c == ',' || c == '.' { if dopts.no_symbol_pos { &pool[0] } else { &pool[2] } } else { &pool[1] };
                sys.entries.push(crate::model::Entry::simple(&c.to_string(), rng.range(0, nid - 1) as i16, rng.range(0, nid - 1) as i16, rng.range(0, 500) as i16, p));
            }
            let mut p = crate::scen::PluginOpts::random(&mut rng, &matrix, true);
            if wi % 2 == 0 {
                p.join_numeric = Some(true);
            }
            // now and then a tall stack: dictionary numbers 8 and above have the top bit of the word id set
            if wi % 8 == 3 {
                p.n_users = 8 + rng.below(7);
            }
            crate::scen::build_world_from(&mut rng, &dopts, matrix, sys, p, Place::Owned)
        }) {
            Ok(Ok(w)) => w,
            Ok(Err(e)) => {
                rep.notes.push(format!("scenario {}: {}", wi, clip(&e, 200)));
                continue;
            }
            Err(p) => {
                rep.skipped_panic(&p, json!({"scenario": wi}));
                continue;
            }
        };
        rep.count("scenarios", 1);
        // scenario directory = the world's resource directory + dictionaries + sudachi.json
        let dir = world.res.path.clone();
        world.res.write_bytes("system.dic", &world.sys_bytes);
        let mut cfg = world.cfg_json.clone();
        cfg["systemDict"] = json!("system.dic");
        let mut users = vec![];
        for (i, u) in world.user_bytes.iter().enumerate() {
            let name = format!("user{}.dic", i);
            world.res.write_bytes(&name, u);
            users.push(name);
        }
        cfg["userDict"] = json!(users);
        // the projection option is Python-only
        if let Some(p) = [None, Some("surface"), Some("normalized"), Some("reading"), Some("dictionary")][rng.below(5)] {
            cfg["projection"] = json!(p);
        }
        world.res.write("sudachi.json", &serde_json::to_string_pretty(&cfg).unwrap());
        let keys = world.keys();
        let describe = || json!({"scenario": wi, "config": cfg, "world": world.describe(false)});

        // ---------- Python
        let mut cases = String::new();
        let n_cases = if threads_stage { 12 } else { 40 };
        for _ in 0..n_cases {
            let text = match rng.below(8) {
                0 => String::new(),
                _ => textgen::text_from_keys(&mut rng, &keys, 7),
            };
            let mode = MODES[rng.below(3)];
            match guard(|| expected_case(&world, &text, mode)) {
                Ok(v) => cases.push_str(&serde_json::to_string(&v).unwrap()),
                Err(p) => {
                    // the library's own accessors (surface, begin_c / end_c, split_into ...) panic on an analysis it accepted: then
                    // the binding, which calls the same accessors, cannot report text[begin:end] == raw surface for it either
                    rep.violation("python_code_point_slice", &p.site, &format!("the library's own accessors panic on an accepted analysis (the binding calls the same ones): {}", p.msg), "", json!({"text": text, "mode": mode_name(mode), "scenario": describe()}));
                    continue;
                }
            }
            cases.push('\n');
        }
        if !threads_stage {
            for _ in 0..6 {
                let k = rng.pick(&keys).clone();
                let ids: Vec<u32> = (0..=world.users.len())
                    .flat_map(|d| {
                        world.lexicon_of(d).entries.iter().enumerate().filter(|(_, e)| e.indexed() && e.key == k).map(move |(r, _)| ((d as u32) << 28) | r as u32).collect::<Vec<_>>()
                    })
                    .collect();
                cases.push_str(&serde_json::to_string(&json!({"kind": "lookup", "surface": k, "word_ids": ids})).unwrap());
                cases.push('\n');
            }
        }
        world.res.write("cases.jsonl", &cases);
        // inputs of the Python dictionary-building entry points: the lexicon split over files whose command
        // order is not their alphabetical order; expected outputs are the library's own
        if !threads_stage {
            world.res.write("matrix.def", &world.matrix_text);
            let rows: Vec<String> = world.sys.entries.iter().map(|e| world.sys.row_csv(e, None)).collect();
            let cut = 1 + rng.below(rows.len().max(2) - 1);
            let mut lex = vec![];
            for (name, part) in [("z_first.csv", &rows[..cut.min(rows.len())]), ("a_second.csv", &rows[cut.min(rows.len())..])] {
                if !part.is_empty() {
                    world.res.write(name, &(part.join("\n") + "\n"));
                    lex.push(name.to_string());
                }
            }
            let mut ub = vec![];
            for (i, csv) in world.user_csvs.iter().enumerate() {
                let name = format!("user{}.csv", i);
                world.res.write(&name, csv);
                ub.push(json!({"lex": [name], "expect": format!("user{}.dic", i), "description": "vh-user"}));
            }
            // user dictionaries are compiled against the system dictionary alone: only the first one is independent of the others
            world.res.write("build.json", &serde_json::to_string(&json!({"matrix": "matrix.def", "lex": lex, "expect": "system.dic", "description": crate::env::DESCRIPTION, "users": ub})).unwrap());
        }
        rep.eval();
        let mut cmd = Command::new("python3");
        cmd.arg(&driver).arg(&dir).arg(&pypkg).arg(format!("{}", ctx.seed.wrapping_add(wi)));
        if threads_stage {
            cmd.arg("8");
        }
        match cmd.output() {
            Err(e) => rep.notes.push(format!("python could not be started: {}", e)),
            Ok(o) => {
                let stdout = String::from_utf8_lossy(&o.stdout).to_string();
                if !o.status.success() {
                    let stderr = String::from_utf8_lossy(&o.stderr).to_string();
                    let crashed = o.status.code().is_none() || stderr.contains("Fatal Python error");
                    if crashed {
                        rep.violation("interpreter_crash", "python driver", &format!("status {:?}: {}", o.status, clip(&stderr, 600)), "", describe());
                    } else {
                        // an uncaught Python exception inside the driver itself: a harness problem, not a verdict
                        rep.notes.push(format!("python driver failed: {}", clip(&stderr, 300)));
                        rep.count("python_driver_errors", 1);
                    }
                } else if let Ok(v) = serde_json::from_str::<Value>(stdout.trim()) {
                    for k in ["cases", "morphemes", "fields_compared", "splits_compared", "lookups", "history_ops", "history_probes", "python_exceptions", "thread_results", "projection_checks", "pretokenizer_calls", "py_builds", "override_checks", "word_infos_compared", "list_api_checks", "split_out_checks", "lookup_split_checks", "field_split_checks", "pretokenizer_field_checks", "narrow_fields_projection_checks", "kept_result_checks"] {
                        rep.count(&format!("py_{}", k), v[k].as_u64().unwrap_or(0));
                    }
                    if let Some(ms) = v["mismatches"].as_array() {
                        for m in ms.iter().take(5) {
                            rep.violation(&format!("python_{}", m["kind"].as_str().unwrap_or("?")), "sudachipy", m["msg"].as_str().unwrap_or(""), "", json!({"case": m["case"], "scenario": describe()}));
                        }
                        if ms.is_empty() {
                            rep.nontrivial(fnv(format!("py|{}", wi).as_bytes()));
                        }
                    }
                } else {
                    rep.notes.push(format!("python driver printed no result: {}", clip(&stdout, 200)));
                }
            }
        }
        if threads_stage {
            continue;
        }

        // ---------- CLI
        for fi in 0..3 {
            let content = gen_file(&mut rng, &keys);
            let mode = MODES[rng.below(3)];
            let fmt = *rng.pick(&["", "a", "w"]);
            let split = *rng.pick(&["yes", "yes", "no", "only"]);
            // one file in six of those analysed line by line has, between ordinary lines, a line the library rejects as too long
            let mut content = content;
            let mut tolerant: Option<(String, String)> = None;
            if split == "no" && rng.chance(1, 6) {
                let long_line = "あ".repeat(16384 + rng.below(3));
                let at = content.find('\n').map(|p| p + 1).unwrap_or(content.len());
                if at == content.len() && !content.ends_with('\n') {
                    content.push('\n');
                }
                let at = at.min(content.len());
                content.insert_str(at, &format!("{}\n{}\n", long_line, textgen::text_from_keys(&mut rng, &keys, 3).replace(['\n', '\r'], "")));
                match guard(|| expected_cli_with_rejected(&world, &content, mode, fmt)) {
                    Ok(Some((a, b, n))) if n > 0 => tolerant = Some((a, b)),
                    _ => continue,
                }
            }
            let expected = if tolerant.is_some() { String::new() } else { match guard(|| expected_cli(&world, &content, mode, fmt, split)) {
                Ok(Some(e)) => e,
                _ => continue,
            } };
            let use_file_out = rng.chance(1, 3);
            let use_stdin = rng.chance(1, 2);
            let in_path = dir.join(format!("input{}.txt", fi));
            let out_path = dir.join(format!("output{}.txt", fi));
            std::fs::write(&in_path, &content).ok();
            let mut cmd = Command::new(&cli);
            cmd.arg("-r").arg(dir.join("sudachi.json")).arg("-p").arg(&dir).arg("-m").arg(mode_name(mode)).arg("--split-sentences").arg(split);
            if fmt == "a" {
                cmd.arg("-a");
            }
            if fmt == "w" {
                cmd.arg("-w");
            }
            if use_file_out {
                cmd.arg("-o").arg(&out_path);
            }
            if !use_stdin {
                cmd.arg(&in_path);
            }
            cmd.stdin(Stdio::piped()).stdout(Stdio::piped()).stderr(Stdio::piped());
            rep.eval();
            let scen = || json!({"file_content": content, "mode": mode_name(mode), "format": fmt, "split_sentences": split, "stdin": use_stdin, "output_file": use_file_out, "scenario": describe()});
            let child = cmd.spawn();
            let mut child = match child {
                Ok(c) => c,
                Err(e) => {
                    rep.notes.push(format!("CLI could not be started: {}", e));
                    continue;
                }
            };
            if let Some(mut si) = child.stdin.take() {
                if use_stdin {
                    let _ = si.write_all(content.as_bytes());
                }
            }
            let o = match child.wait_with_output() {
                Ok(o) => o,
                Err(_) => continue,
            };
            if !o.status.success() {
                if tolerant.is_some() {
                    // giving up at a line the library rejects is one of the two behaviours a tool may have
                    rep.count("cli_runs_that_stop_at_a_rejected_line", 1);
                    continue;
                }
                rep.violation("cli_failed", "sudachi CLI", &format!("exit status {:?}: {}", o.status, clip(&String::from_utf8_lossy(&o.stderr), 400)), "", scen());
                continue;
            }
            let got = if use_file_out { std::fs::read_to_string(&out_path).unwrap_or_default() } else { String::from_utf8_lossy(&o.stdout).to_string() };
            if let Some((a, b)) = &tolerant {
                rep.count("cli_runs_that_carry_on_after_a_rejected_line", 1);
                if &got != a && &got != b {
                    let (gl, el): (Vec<&str>, Vec<&str>) = (got.lines().collect(), a.lines().collect());
                    let k = gl.iter().zip(el.iter()).position(|(x, y)| x != y).unwrap_or(gl.len().min(el.len()));
                    rep.violation("cli_rejected_line", "sudachi CLI", &format!("a line the library rejects as too long: the tool carries on, but output line {} is {:?}; the lines the library analyses give {:?} there ({} vs {} lines): morphemes are printed that no analysis of this input produced", k, gl.get(k), el.get(k), gl.len(), el.len()), "", scen());
                }
                continue;
            }
            rep.count("cli_runs_compared", 1);
            if split == "only" {
                rep.count("cli_sentence_only_runs_compared", 1);
            }
            if content.split_inclusive('\n').any(|l| l == "\n" || l == "\r\n") {
                rep.count("cli_files_with_blank_lines", 1);
            }
            if content.split_inclusive('\n').any(|l| l.strip_suffix('\n').map(|x| x.strip_suffix('\r').unwrap_or(x)).unwrap_or(l).ends_with('\r')) {
                rep.count("cli_lines_whose_content_ends_with_cr", 1);
            }
            if got != expected {
                // first differing line
                let (gl, el): (Vec<&str>, Vec<&str>) = (got.lines().collect(), expected.lines().collect());
                let k = gl.iter().zip(el.iter()).position(|(a, b)| a != b).unwrap_or(gl.len().min(el.len()));
                // with --split-sentences=only the output is the sentences themselves: that is C16's observation point
                rep.violation(if split == "only" { "cli_sentences_differ" } else { "cli_output_differs" }, "sudachi CLI", &format!("output line {}: CLI {:?}, library rendering {:?} ({} vs {} lines)", k, gl.get(k), el.get(k), gl.len(), el.len()), "", scen());
            } else {
                rep.nontrivial(fnv(format!("cli|{}|{}", wi, fi).as_bytes()));
            }
        }
        if rep.want_sample() {
            rep.sample(json!({"config": cfg, "python_cases": n_cases, "cli_files": 3}));
        }
    }
}
