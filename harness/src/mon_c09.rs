//! C09 — modes A and B refine mode C with exactly the dictionary's split units.

use serde_json::json;
use sudachi::analysis::Mode;
use sudachi::prelude::MorphemeList;

use crate::dictgen::DictOpts;
use crate::env::Place;
use crate::model::Ref;
use crate::report::{clip, guard, Report};
use crate::rng::{fnv, Rng};
use crate::scen::{build_world, mode_name, observe, Obs, PluginOpts, Tok, World};
use crate::textgen;
use crate::Ctx;

fn expected_units(world: &World, word_id: u32, mode: Mode) -> Option<Vec<u32>> {
    let dic = (word_id >> 28) as usize;
    if dic == 15 || dic > world.users.len() {
        return None;
    }
    let row = (word_id & 0x0fff_ffff) as usize;
    let lex = world.lexicon_of(dic);
    let e = lex.entries.get(row)?;
    let refs: &Vec<Ref> = if mode == Mode::A { &e.split_a } else { &e.split_b };
    Some(refs.iter().map(|r| ((if r.dic == 0 { 0 } else { dic as u32 }) << 28) | r.row as u32).collect())
}

fn unit_key_chars(world: &World, wid: u32) -> usize {
    let dic = (wid >> 28) as usize;
    let row = (wid & 0x0fff_ffff) as usize;
    world.lexicon_of(dic).entries[row].key.chars().count()
}

pub fn run(ctx: &Ctx, rep: &mut Report) {
    let n_worlds = ctx.n(320, 12000);
    for wi in ctx.indices(n_worlds) {
        if ctx.out_of_time() {
            rep.notes.push(format!("stopped at world {} (time budget)", wi));
            break;
        }
        let mut rng = Rng::derive(ctx.seed, 0xC09, wi);
        rep.progress_idx(wi, "C09 world");
        // (every eighth world also has compounds whose key is longer than the concatenation of its units: the last unit then
        // covers the rest of the word - boundaries, unit identities and the partition of the parent's range still hold)
        let dopts = DictOpts { max_entries: 30, loose_compounds: wi % 8 == 6, ..DictOpts::default() };
        let world = match guard(|| {
            let matrix = crate::dictgen::gen_matrix(&mut rng, &dopts);
            let mut sys = crate::dictgen::gen_system(&mut rng, &dopts, &matrix);
            // every fourth world has the path-rewrite plugins: a token they create declares no splits and stays whole in
            // every mode, also when its first part is a numeral compound with declared units
            let pr = wi % 4 == 3;
            if pr {
                let pool = crate::dictgen::pos_pool();
                let nid = matrix.nid() as i64;
                let base = sys.entries.len();
                for k in ["1", "2", "0", "三", "百"] {
                    sys.entries.push(crate::model::Entry::simple(k, rng.range(0, nid - 1) as i16, rng.range(0, nid - 1) as i16, rng.range(0, 2000) as i16, &pool[1]));
                }
                for (key, a, b) in [("12", 0usize, 1usize), ("20", 1, 2), ("三百", 3, 4)] {
                    let mut e = crate::model::Entry::simple(key, rng.range(0, nid - 1) as i16, rng.range(0, nid - 1) as i16, rng.range(-3000, -1000) as i16, &pool[1]);
                    e.mode = "C";
                    let units = vec![Ref { dic: 0, row: base + a, inline: false }, Ref { dic: 0, row: base + b, inline: false }];
                    e.split_a = units.clone();
                    if rng.chance(1, 2) {
                        e.split_b = units;
                    }
                    sys.entries.push(e);
                }
            }
            let mut p = PluginOpts::random(&mut rng, &matrix, pr);
            if pr {
                p.join_numeric = Some(rng.chance(1, 2));
            }
            p.n_users = *rng.pick(&[0usize, 1, 2, 3, 4]);
            crate::scen::build_world_from(&mut rng, &dopts, matrix, sys, p, Place::Owned)
        }) {
            Ok(Ok(w)) => w,
            Ok(Err(e)) => {
                rep.count("worlds_rejected", 1);
                rep.notes.push(format!("world {}: {}", wi, clip(&e, 200)));
                continue;
            }
            Err(p) => {
                rep.skipped_panic(&p, json!({"world": wi, "stage": "build"}));
                continue;
            }
        };
        let _ = build_world;
        rep.count("worlds", 1);
        rep.max("max_user_layers", world.users.len() as u64);
        let keys = world.keys();
        // compounds are what matters: texts made of compound keys in several spellings
        let compound_keys: Vec<String> = (0..=world.users.len())
            .flat_map(|d| world.lexicon_of(d).entries.iter().filter(|e| e.split_a.len() >= 2 || e.split_b.len() >= 2).map(|e| e.key.clone()).collect::<Vec<_>>())
            .collect();
        let mut tc = Tok::new(&world.dict, Mode::C);
        // in every third world the mode-C tokenizer has been through mode changes first (the way a per-call mode override of
        // the bindings is applied and undone): what it loads afterwards must still carry the units of both other modes
        if wi % 3 == 0 {
            match wi % 9 {
                0 => { tc.tok.set_mode(Mode::A); tc.tok.set_mode(Mode::C); }
                3 => { tc.tok.set_mode(Mode::C); }
                _ => { tc.tok.set_mode(Mode::B); let _ = guard(|| tc.run("あい東京都")); tc.tok.set_mode(Mode::C); }
            }
            rep.count("worlds_whose_mode_C_tokenizer_went_through_set_mode", 1);
        }
        // half of the worlds reach modes A/B the way the Python binding does: a tokenizer created in mode C,
        // a field request that does not mention the split fields, then set_mode
        let via_subset = wi % 2 == 1 && wi % 8 != 3;
        // (with path-rewrite plugins the request keeps the fields those plugins read: surface, POS, normalised form)
        let sub_bits = ((rng.next() as u32) & 0x3ff & !(0xc2)) | if world.plugins.join_numeric.is_some() || world.plugins.join_katakana.is_some() { 0x00d } else { 0 };
        // ... in every second of those worlds after a first analysis in mode C (the result list has then been used under
        // the narrow request before the mode is changed)
        let warm = wi % 4 == 1;
        let make = |m: Mode| {
            if via_subset {
                let mut t = Tok::new(&world.dict, Mode::C);
                t.tok.set_subset(crate::fields::subset_of(sub_bits));
                if warm {
                    let _ = guard(|| t.run("あい東京都"));
                }
                t.tok.set_mode(m);
                t
            } else {
                Tok::new(&world.dict, m)
            }
        };
        let mut ta = make(Mode::A);
        let mut tb = make(Mode::B);
        if via_subset {
            rep.count("worlds_with_modes_set_after_a_field_request", 1);
        }
        // an output list recycled from earlier sentences, and fresh ones
        let mut recycled = MorphemeList::empty(&world.dict);
        // (in every second world it first receives an analysis made with a narrow field request: what a later split writes
        // into it is loaded with the request of the list that is split, not with that old one)
        if wi % 2 == 0 {
            let mut narrow = sudachi::analysis::stateful_tokenizer::StatefulTokenizer::new(&world.dict, Mode::C);
            narrow.set_subset(crate::fields::subset_of(if wi % 4 == 0 { 0x004 } else { 0x000 }));
            narrow.reset().push_str("あい東京都");
            if narrow.do_tokenize().is_ok() {
                let _ = recycled.collect_results(&mut narrow);
            }
        }
        // ... and one that is not cleared between calls (the split API appends)
        let mut accum = MorphemeList::empty(&world.dict);
        let pr = world.plugins.join_numeric.is_some();
        if pr {
            rep.count("worlds_with_path_rewrite_plugins", 1);
        }
        for ti in 0..50 {
            let mut text = String::new();
            if pr && rng.chance(1, 2) {
                text.push_str(rng.s(&["123", "1205", "2012", "三百12", "200", "12", "三百", "0120"]));
            }
            for _ in 0..1 + rng.below(5) {
                if !compound_keys.is_empty() && rng.chance(2, 3) {
                    let k = rng.pick(&compound_keys).clone();
                    text.push_str(&textgen::spell_variant(&mut rng, &k));
                } else {
                    text.push_str(&textgen::text_from_keys(&mut rng, &keys, 2));
                }
            }
            rep.eval();
            let r = guard(|| -> Result<(Vec<Obs>, Vec<Obs>, Vec<Obs>), String> {
                tc.run(&text).map_err(|e| format!("{:?}", e))?;
                ta.run(&text).map_err(|e| format!("{:?}", e))?;
                tb.run(&text).map_err(|e| format!("{:?}", e))?;
                Ok((observe(&tc.list), observe(&ta.list), observe(&tb.list)))
            });
            let (oc, oa, ob) = match r {
                Ok(Ok(x)) => x,
                Ok(Err(_)) => continue,
                Err(p) => {
                    rep.skipped_panic(&p, json!({"world_index": wi, "text": text}));
                    tc = Tok::new(&world.dict, Mode::C);
                    ta = make(Mode::A);
                    tb = make(Mode::B);
                    continue;
                }
            };
            let scen = |extra: &str| json!({"world_index": wi, "text_index": ti, "text": text, "detail": extra,
                "C": oc.iter().map(|o| json!([o.begin, o.end, o.surface, format!("{:#x}", o.word_id)])).collect::<Vec<_>>(),
                "A": oa.iter().map(|o| json!([o.begin, o.end, o.surface, format!("{:#x}", o.word_id)])).collect::<Vec<_>>(),
                "B": ob.iter().map(|o| json!([o.begin, o.end, o.surface, format!("{:#x}", o.word_id)])).collect::<Vec<_>>(),
                "world": world.describe(true)});
            let mut failed = false;
            let mut saw_split = false;
            for (mode, om, tm) in [(Mode::A, &oa, &ta), (Mode::B, &ob, &tb)] {
                if failed {
                    break;
                }
                // walk the C tokens, matching on positions of the normalised text
                let mut k = 0usize;
                for (ci, c) in oc.iter().enumerate() {
                    let (cb, ce) = tc.nranges[ci];
                    let start = k;
                    while k < om.len() && tm.nranges[k].1 <= ce && tm.nranges[k].0 >= cb {
                        k += 1;
                        if tm.nranges[k - 1].1 == ce && (k >= om.len() || tm.nranges[k].0 >= ce) {
                            // zero-width tokens at the boundary belong to the next C token unless C itself is zero-width
                            if ce > cb {
                                break;
                            }
                        }
                    }
                    let sub = &om[start..k];
                    let subr = &tm.nranges[start..k];
                    if sub.is_empty() || subr[0].0 != cb || subr[sub.len() - 1].1 != ce {
                        rep.violation("boundary_lost", "mode refinement", &format!("mode {}: the C token {:?} [{}..{}) is not covered by whole tokens", mode_name(mode), c.surface, c.begin, c.end), "", scen(""));
                        failed = true;
                        break;
                    }
                    let exp = expected_units(&world, c.word_id, mode);
                    match exp {
                        Some(units) if units.len() >= 2 => {
                            saw_split = true;
                            rep.count("split_tokens_checked", 1);
                            let got: Vec<u32> = sub.iter().map(|o| o.word_id).collect();
                            if got != units {
                                rep.violation("wrong_units", "mode refinement", &format!("mode {}: {:?} (word {:#x}) declares units {:x?}, the analysis gives {:x?}", mode_name(mode), c.surface, c.word_id, units, got), "", scen(""));
                                failed = true;
                                break;
                            }
                            // ranges partition the parent: every unit but the last has the length of its key
                            let mut pos = cb;
                            for (ui, u) in units.iter().enumerate() {
                                let len = if ui + 1 == units.len() { ce - pos } else { unit_key_chars(&world, *u) };
                                if subr[ui] != (pos, pos + len) {
                                    rep.violation("wrong_unit_range", "mode refinement", &format!("mode {}: unit {} of {:?} covers chars {:?} of the normalised text, expected {}..{}", mode_name(mode), ui, c.surface, subr[ui], pos, pos + len), "", scen(""));
                                    failed = true;
                                    break;
                                }
                                pos += len;
                            }
                            if failed {
                                break;
                            }
                            // original-text ranges partition the parent's range
                            if sub[0].begin != c.begin || sub[sub.len() - 1].end != c.end || sub.windows(2).any(|w| w[0].end != w[1].begin) {
                                rep.violation("wrong_unit_range", "mode refinement", &format!("mode {}: sub-tokens of {:?} do not partition {}..{}", mode_name(mode), c.surface, c.begin, c.end), "", scen(""));
                                failed = true;
                                break;
                            }
                        }
                        _ => {
                            // no declared splits (or a single unit, or OOV): unchanged
                            if sub.len() != 1 || sub[0].word_id != c.word_id || sub[0].begin != c.begin || sub[0].end != c.end {
                                rep.violation("unsplit_token_changed", "mode refinement", &format!("mode {}: {:?} (word {:#x}) declares no split but is reported as {:?}", mode_name(mode), c.surface, c.word_id, sub.iter().map(|o| (o.surface.clone(), format!("{:#x}", o.word_id))).collect::<Vec<_>>()), "", scen(""));
                                failed = true;
                                break;
                            }
                            rep.count("unsplit_tokens_checked", 1);
                        }
                    }
                    // on-demand split of the C morpheme
                    let declared = expected_units(&world, c.word_id, mode).map(|u| u.len()).unwrap_or(0);
                    if declared != 1 {
                        // into a list that already holds morphemes: units are appended, and a word without units reports "not split"
                        if accum.len() == 0 || accum.len() > 200 {
                            accum.clear();
                            tc.list.copy_slice(0, 1, &mut accum);
                        }
                        let before = accum.len();
                        match guard(|| tc.list.split_into(mode, ci, &mut accum)) {
                            Ok(Ok(flag)) => {
                                let added = accum.len() - before;
                                rep.count("on_demand_splits_into_nonempty_lists", 1);
                                let ok = if declared >= 2 { flag && added == declared } else { !flag && added == 0 };
                                if !ok {
                                    rep.violation("split_api_differs", "split_into", &format!("mode {}: {:?} declares {} units; split_into into a list that already held {} morphemes returns {} and appends {}", mode_name(mode), c.surface, declared, before, flag, added), "", scen("non-empty output list"));
                                    failed = true;
                                    break;
                                }
                            }
                            Ok(Err(e)) => {
                                rep.violation("split_into_error", "split_into", &format!("{:?}", e), "", scen("non-empty output list"));
                                failed = true;
                                break;
                            }
                            Err(p) => {
                                rep.violation("split_into_panic", &p.site, &p.msg, "", scen("non-empty output list"));
                                failed = true;
                                break;
                            }
                        }
                    }
                    if declared != 1 {
                        let fresh_out = rng.chance(1, 2);
                        let res = guard(|| {
                            if fresh_out {
                                let mut out = MorphemeList::empty(&world.dict);
                                let b = tc.list.split_into(mode, ci, &mut out)?;
                                Ok::<_, sudachi::error::SudachiError>((b, observe(&out)))
                            } else {
                                recycled.clear();
                                let b = tc.list.split_into(mode, ci, &mut recycled)?;
                                Ok((b, observe(&recycled)))
                            }
                        });
                        match res {
                            Err(p) => {
                                rep.violation("split_into_panic", &p.site, &p.msg, "", scen(&format!("split_into({}) of C token {} into a {} list", mode_name(mode), ci, if fresh_out { "fresh" } else { "recycled" })));
                                failed = true;
                                break;
                            }
                            Ok(Err(e)) => {
                                rep.violation("split_into_error", "split_into", &format!("{:?}", e), "", scen(""));
                                failed = true;
                                break;
                            }
                            Ok(Ok((flag, so))) => {
                                rep.count("on_demand_splits_checked", 1);
                                if declared >= 2 {
                                    let same = flag && so.len() == sub.len() && so.iter().zip(sub.iter()).all(|(x, y)| x.word_id == y.word_id && x.begin == y.begin && x.end == y.end && x.surface == y.surface);
                                    if !same {
                                        rep.violation("split_api_differs", "split_into", &format!("mode {}: split_into of {:?} gives {:?} (flag {}), direct analysis gives {:?}", mode_name(mode), c.surface, so.iter().map(|o| (o.begin, o.end, o.surface.clone())).collect::<Vec<_>>(), flag, sub.iter().map(|o| (o.begin, o.end, o.surface.clone())).collect::<Vec<_>>()), "", scen(&format!("{} output list", if fresh_out { "fresh" } else { "recycled" })));
                                        failed = true;
                                        break;
                                    }
                                } else if flag || !so.is_empty() {
                                    rep.violation("split_api_differs", "split_into", &format!("mode {}: {:?} declares no units but split_into reports {} / {} sub-tokens", mode_name(mode), c.surface, flag, so.len()), "", scen(""));
                                    failed = true;
                                    break;
                                }
                            }
                        }
                    }
                }
                if !failed && k != om.len() {
                    rep.violation("boundary_lost", "mode refinement", &format!("mode {}: {} trailing tokens are not inside any C token", mode_name(mode), om.len() - k), "", scen(""));
                    failed = true;
                }
            }
            // keep the recycled list warm with another sentence
            if !failed && ti % 3 == 0 {
                let _ = guard(|| tc.list.split_into(Mode::A, 0, &mut recycled));
            }
            if !failed && saw_split {
                rep.nontrivial(fnv(format!("{}|{}", wi, text).as_bytes()));
                if tc.normalized.len() != text.len() {
                    rep.count("split_texts_where_normalised_length_differs", 1);
                }
                if rep.want_sample() {
                    rep.sample(json!({"text": text, "C": oc.iter().map(|o| o.surface.clone()).collect::<Vec<_>>(), "A": oa.iter().map(|o| o.surface.clone()).collect::<Vec<_>>(), "B": ob.iter().map(|o| o.surface.clone()).collect::<Vec<_>>()}));
                }
            }
        }
    }
}
