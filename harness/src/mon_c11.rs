//! C11 — loading a subset of word fields never changes the fields that were requested.

use serde_json::json;
use sudachi::analysis::stateless_tokenizer::DictionaryAccess;
use sudachi::analysis::Mode;
use sudachi::dic::word_id::WordId;

use crate::dictgen::DictOpts;
use crate::env::Place;
use crate::fields::{field_values, subset_of, FIELD_NAMES, PATH_REWRITE_NEEDS};
use crate::mon_c01::check_partition;
use crate::report::{clip, guard, Report};
use crate::rng::{fnv, Rng};
use crate::scen::{mode_name, observe, Tok, MODES};
use crate::textgen;
use crate::Ctx;

pub fn run(ctx: &Ctx, rep: &mut Report) {
    let n_worlds = ctx.n(160, 8000);
    for wi in ctx.indices(n_worlds) {
        if ctx.out_of_time() {
            rep.notes.push(format!("stopped at world {} (time budget)", wi));
            break;
        }
        let mut rng = Rng::derive(ctx.seed, 0xC11, wi);
        rep.progress_idx(wi, "C11 world");
        let dopts = DictOpts { max_entries: 24, ..DictOpts::default() };
        let path_rewrite = wi % 2 == 1;
        let world = match guard(|| {
            let matrix = crate::dictgen::gen_matrix(&mut rng, &dopts);
            let mut sys = crate::dictgen::gen_system(&mut rng, &dopts, &matrix);
            // strings across the 1-byte / 2-byte length prefix boundary: skipping such a field is its own code path
            crate::mon_c05::boundary_rows(&mut rng, &mut sys, matrix.nid() as i64, false);
            let p = crate::scen::PluginOpts::random(&mut rng, &matrix, path_rewrite);
            crate::scen::build_world_from(&mut rng, &dopts, matrix, sys, p, Place::Owned)
        }) {
            Ok(Ok(w)) => w,
            Ok(Err(e)) => {
                rep.count("worlds_rejected", 1);
                rep.notes.push(format!("world {}: {}", wi, clip(&e, 200)));
                continue;
            }
            Err(p) => {
                rep.skipped_panic(&p, json!({"world": wi, "stage": "build"}));
                continue;
            }
        };
        // every third world: the dictionaries are written in the older formats that have no synonym group ids (system
        // version 1, user version 2): same bytes under the older magic number, and the last word record - the last
        // bytes of the image - really ends where those formats end it, before the (here: final) synonym array
        let world = if wi % 3 == 2 {
            let mut w = world;
            let strip = |bytes: &[u8], magic_new: u64, magic_old: u64, last_syn: usize| -> Option<Vec<u8>> {
                let cut = 1 + 4 * last_syn;
                if bytes.len() < 8 + cut || bytes[..8] != magic_new.to_le_bytes() {
                    return None;
                }
                let mut b = bytes[..bytes.len() - cut].to_vec();
                b[..8].copy_from_slice(&magic_old.to_le_bytes());
                Some(b)
            };
            let sys_old = strip(&w.sys_bytes, 0xce9f011a92394434, 0x7366d3f18bd111e7, w.sys.entries.last().map(|e| e.synonyms.len()).unwrap_or(0));
            let users_old: Vec<Option<Vec<u8>>> = w.user_bytes.iter().zip(w.users.iter()).map(|(b, l)| strip(b, 0xca9811756ff64fb0, 0x9fdeb5a90168d868, l.entries.last().map(|e| e.synonyms.len()).unwrap_or(0))).collect();
            if let (Some(so), true) = (sys_old, users_old.iter().all(|u| u.is_some())) {
                let uo: Vec<Vec<u8>> = users_old.into_iter().map(|u| u.unwrap()).collect();
                let cfg = crate::env::config(&w.cfg_json, &w.res);
                match guard(|| crate::env::load(&cfg, &so, &uo, Place::Owned)) {
                    Ok(Ok(d)) => {
                        w.dict = d;
                        w.sys_bytes = so;
                        w.user_bytes = uo;
                        rep.count("worlds_in_the_formats_without_synonym_ids", 1);
                    }
                    Ok(Err(e)) => {
                        rep.violation("subset_error", "from_cfg_storage", &format!("the stack loads in the current formats but not when written in the formats without synonym group ids: {:?}", e), "", json!({"world_index": wi}));
                        continue;
                    }
                    Err(pn) => {
                        rep.violation("subset_panic", &pn.site, &format!("loading the stack in the formats without synonym group ids: {}", pn.msg), "", json!({"world_index": wi}));
                        continue;
                    }
                }
            }
            w
        } else {
            world
        };
        rep.count("worlds", 1);
        let has_pr = world.plugins.join_numeric.is_some() || world.plugins.join_katakana.is_some();
        let lex = world.dict.lexicon();
        // (1) every word x every one of the 1,024 subsets
        'words: for dic in 0..=world.users.len() {
            let n = world.lexicon_of(dic).entries.len();
            for row in 0..n {
                let wid = WordId::new(dic as u8, row as u32);
                let full = match guard(|| lex.get_word_info(wid).map(|w| field_values(&w))) {
                    Ok(Ok(f)) => f,
                    _ => continue,
                };
                rep.count("words_swept_over_all_subsets", 1);
                for bits in 0..1024u32 {
                    rep.eval();
                    let s = subset_of(bits);
                    let got = guard(|| lex.get_word_info_subset(wid, s.normalize()).map(|w| field_values(&w)));
                    let scen = || json!({"world_index": wi, "dictionary": dic, "row": row, "subset_bits": bits, "csv_row": world.lexicon_of(dic).row_csv(&world.lexicon_of(dic).entries[row], Some(&world.sys)), "world": world.describe(false)});
                    let got = match got {
                        Ok(Ok(g)) => g,
                        Ok(Err(e)) => {
                            rep.violation("subset_error", "get_word_info_subset", &format!("{:?}", e), "", scen());
                            continue 'words;
                        }
                        Err(p) => {
                            rep.violation("subset_panic", &p.site, &p.msg, "", scen());
                            continue 'words;
                        }
                    };
                    for f in 0..10 {
                        if bits & (1 << f) != 0 && got[f] != full[f] {
                            rep.violation("field_differs", FIELD_NAMES[f], &format!("word {}:{} ({:?}) with subset {:#05x}: requested field {} is {:?}, with all fields loaded it is {:?}", dic, row, clip(&world.lexicon_of(dic).entries[row].key, 20), bits, FIELD_NAMES[f], clip(&got[f], 60), clip(&full[f], 60)), "", scen());
                            continue 'words;
                        }
                    }
                }
                rep.nontrivial(fnv(format!("{}|{}|{}", wi, dic, row).as_bytes()));
            }
        }
        // (2) tokenization under subsets, both call orders
        let keys = world.keys();
        // long-lived tokenizers + one reused list per mode: the field request changes between analyses
        let mut live: Vec<Tok> = MODES.iter().map(|m| Tok::new(&world.dict, *m)).collect();
        let mut live_bits: [u32; 3] = [0x3ff; 3];
        for ti in 0..40 {
            let text = textgen::text_from_keys(&mut rng, &keys, 8);
            let mode = MODES[rng.below(3)];
            let mut bits = match rng.below(4) {
                0 => 1 << rng.below(10),
                1 => 0,
                _ => (rng.next() as u32) & 0x3ff,
            };
            let order = rng.chance(1, 2);
            // on the long-lived tokenizers the request is sometimes left as it is (two analyses in a row)
            let keep_request = ti % 2 == 1 && rng.chance(1, 2);
            if keep_request {
                bits = live_bits[MODES.iter().position(|m| *m == mode).unwrap()];
            }
            rep.eval();
            let mut full_t = Tok::new(&world.dict, mode);
            let use_live = ti % 2 == 1;
            let mut fresh_t = Tok::new(&world.dict, if order { Mode::C } else { mode });
            let mi = MODES.iter().position(|m| *m == mode).unwrap();
            let sub_t: &mut Tok = if use_live {
                if !keep_request {
                    live[mi].tok.set_subset(subset_of(bits));
                    live_bits[mi] = bits;
                }
                rep.count("analyses_on_long_lived_tokenizers", 1);
                &mut live[mi]
            } else {
                if order {
                    fresh_t.tok.set_subset(subset_of(bits));
                    fresh_t.tok.set_mode(mode);
                } else {
                    fresh_t.tok.set_subset(subset_of(bits));
                }
                &mut fresh_t
            };
            let scen = || json!({"world_index": wi, "text_index": ti, "text": text, "mode": mode_name(mode), "subset_bits": bits, "set_subset_before_set_mode": order, "world": world.describe(true)});
            let rf = guard(|| full_t.run(&text));
            let rs = guard(|| sub_t.run(&text));
            match (rf, rs) {
                (Ok(Ok(())), Ok(Ok(()))) => {}
                (Ok(Err(_)), Ok(Err(_))) => continue,
                (Err(p), _) | (_, Err(p)) => {
                    rep.skipped_panic(&p, json!({"text": text, "subset_bits": bits}));
                    if use_live {
                        live[mi] = Tok::new(&world.dict, mode);
                    }
                    continue;
                }
                _ => {
                    rep.violation("outcome_differs", "do_tokenize", "analysis succeeds with one field request and fails with the other", "", scen());
                    continue;
                }
            }
            let of = match guard(|| observe(&full_t.list)) {
                Ok(o) => o,
                Err(_) => continue,
            };
            let os = match guard(|| observe(&sub_t.list)) {
                Ok(o) => o,
                Err(p) => {
                    rep.violation("accessor_panic", &p.site, &p.msg, "", scen());
                    continue;
                }
            };
            rep.count("tokenizations_compared", 1);
            // on-demand splits of the full-field result into (a) a new list and (b) a list that last held an analysis
            // made under the narrow request: the parts carry the fields of the list that is split
            if ti % 4 == 0 {
                let mut fresh_out = sudachi::prelude::MorphemeList::empty(&world.dict);
                let mut used_out = sudachi::prelude::MorphemeList::empty(&world.dict);
                let _ = guard(|| {
                    let mut narrow = sudachi::analysis::stateful_tokenizer::StatefulTokenizer::new(&world.dict, Mode::C);
                    narrow.set_subset(subset_of(bits & 0x005));
                    narrow.reset().push_str(&text);
                    narrow.do_tokenize()?;
                    used_out.collect_results(&mut narrow)
                });
                for k in 0..full_t.list.len().min(10) {
                    for sm in [Mode::A, Mode::B] {
                        fresh_out.clear();
                        used_out.clear();
                        let r = guard(|| -> Result<(Vec<[String; 10]>, Vec<[String; 10]>), sudachi::error::SudachiError> {
                            full_t.list.split_into(sm, k, &mut fresh_out)?;
                            full_t.list.split_into(sm, k, &mut used_out)?;
                            Ok(((0..fresh_out.len()).map(|i| field_values(fresh_out.get(i).get_word_info())).collect(), (0..used_out.len()).map(|i| field_values(used_out.get(i).get_word_info())).collect()))
                        });
                        match r {
                            Ok(Ok((a, b))) => {
                                rep.count("splits_into_used_lists_compared", 1);
                                if a != b {
                                    rep.violation("field_differs", "split_into", &format!("morpheme {} split({}) into a new list gives {:?}, into a list that had held an analysis with fewer fields {:?}", k, mode_name(sm), a.iter().map(|x| (x[0].clone(), x[3].clone())).collect::<Vec<_>>(), b.iter().map(|x| (x[0].clone(), x[3].clone())).collect::<Vec<_>>()), "", scen());
                                }
                            }
                            Ok(Err(_)) => {}
                            Err(p) => rep.violation("accessor_panic", &p.site, &format!("split_into a used list: {}", p.msg), "", scen()),
                        }
                    }
                }
            }
            // dictionary lookup with all fields into a list that last held an analysis made under the narrow request,
            // then on-demand splits of the words found: the parts carry the fields the lookup asked for
            if ti % 4 == 1 {
                let compounds: Vec<&str> = (0..=world.users.len())
                    .flat_map(|d| world.lexicon_of(d).entries.iter().filter(|e| e.indexed() && (e.split_a.len() >= 2 || e.split_b.len() >= 2)).map(|e| e.key.as_str()).collect::<Vec<_>>())
                    .take(4)
                    .collect();
                for q in compounds {
                    let r = guard(|| -> Result<Vec<(Vec<[String; 10]>, Vec<[String; 10]>)>, sudachi::error::SudachiError> {
                        let mut used = sudachi::prelude::MorphemeList::empty(&world.dict);
                        let mut narrow = sudachi::analysis::stateful_tokenizer::StatefulTokenizer::new(&world.dict, Mode::C);
                        narrow.set_subset(subset_of(bits & 0x005));
                        narrow.reset().push_str(&text);
                        narrow.do_tokenize()?;
                        used.collect_results(&mut narrow)?;
                        used.clear();
                        let mut fresh = sudachi::prelude::MorphemeList::empty(&world.dict);
                        used.lookup(q, subset_of(0x3ff))?;
                        fresh.lookup(q, subset_of(0x3ff))?;
                        let mut out = vec![];
                        for k in 0..used.len().min(fresh.len()) {
                            for sm in [Mode::A, Mode::B] {
                                let mut pa = sudachi::prelude::MorphemeList::empty(&world.dict);
                                let mut pb = sudachi::prelude::MorphemeList::empty(&world.dict);
                                used.split_into(sm, k, &mut pa)?;
                                fresh.split_into(sm, k, &mut pb)?;
                                out.push(((0..pa.len()).map(|i| field_values(pa.get(i).get_word_info())).collect(), (0..pb.len()).map(|i| field_values(pb.get(i).get_word_info())).collect()));
                            }
                        }
                        Ok(out)
                    });
                    match r {
                        Ok(Ok(pairs)) => {
                            for (a, b) in pairs {
                                rep.count("splits_of_looked_up_words_compared", 1);
                                if a != b {
                                    rep.violation("field_differs", "lookup + split_into", &format!("lookup({:?}, all fields) into a list that had held an analysis with fewer fields, then split: parts {:?}; the same on a new list: {:?}", q, a.iter().map(|x| (x[0].clone(), x[2].clone(), x[3].clone())).collect::<Vec<_>>(), b.iter().map(|x| (x[0].clone(), x[2].clone(), x[3].clone())).collect::<Vec<_>>()), "", scen());
                                    break;
                                }
                            }
                        }
                        Ok(Err(_)) => {}
                        Err(p) => rep.violation("accessor_panic", &p.site, &format!("lookup into a used list, then split_into: {}", p.msg), "", scen()),
                    }
                }
            }
            if let Some(m) = check_partition(&text, &os, 0, text.len()) {
                rep.violation("partition", "subset analysis", &m, "", scen());
                continue;
            }
            let covers = bits & PATH_REWRITE_NEEDS == PATH_REWRITE_NEEDS;
            if !has_pr || covers {
                let same = of.len() == os.len() && of.iter().zip(os.iter()).all(|(a, b)| a.begin == b.begin && a.end == b.end && a.word_id == b.word_id);
                if !same {
                    rep.violation("boundaries_differ", "subset analysis", &format!("full-field analysis gives {:?}, subset {:#05x} gives {:?}", of.iter().map(|o| (o.begin, o.end, o.word_id)).collect::<Vec<_>>(), bits, os.iter().map(|o| (o.begin, o.end, o.word_id)).collect::<Vec<_>>()), "", scen());
                    continue;
                }
                // requested fields through the morpheme accessors
                for (k, (a, b)) in of.iter().zip(os.iter()).enumerate() {
                    let fa = field_values(full_t.list.get(k).get_word_info());
                    let fb = field_values(sub_t.list.get(k).get_word_info());
                    let _ = (a, b);
                    for f in 0..10 {
                        if bits & (1 << f) != 0 && fa[f] != fb[f] {
                            rep.violation("field_differs", FIELD_NAMES[f], &format!("morpheme {} ({:?}) with subset {:#05x}: requested field {} is {:?}, full analysis has {:?}", k, a.surface, bits, FIELD_NAMES[f], clip(&fb[f], 60), clip(&fa[f], 60)), "", scen());
                            break;
                        }
                    }
                }
            } else {
                rep.count("tokenizations_where_only_partition_is_promised", 1);
            }
        }
        if rep.want_sample() && !world.users.is_empty() {
            rep.sample(json!({"words": world.sys.entries.len(), "user_layers": world.users.len(), "subsets_per_word": 1024}));
        }
    }
}
