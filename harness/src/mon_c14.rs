//! C14 — path-rewrite plugins only merge adjacent tokens and preserve the text.
//! Differential monitor: the same dictionary loaded with and without pathRewritePlugin.

use serde_json::json;
use sudachi::analysis::stateless_tokenizer::DictionaryAccess;
use sudachi::dic::category_type::CategoryType;

use crate::dictgen::{self, DictOpts};
use crate::env::{self, Place};
use crate::model::Entry;
use crate::report::{clip, guard, Report};
use crate::rng::{fnv, Rng};
use crate::scen::{build_world_from, mode_name, observe, Obs, PluginOpts, Tok, MODES};
use crate::textgen;
use crate::Ctx;
use sudachi::analysis::Mode;

fn same_token(a: &Obs, b: &Obs) -> Option<&'static str> {
    if a.word_id != b.word_id {
        return Some("word id");
    }
    if a.pos != b.pos {
        return Some("part of speech");
    }
    if a.norm != b.norm {
        return Some("normalised form");
    }
    if a.dict_form != b.dict_form {
        return Some("dictionary form");
    }
    if a.reading != b.reading {
        return Some("reading");
    }
    if a.wi_surface != b.wi_surface {
        return Some("dictionary-side surface");
    }
    if a.synonyms != b.synonyms {
        return Some("synonym ids");
    }
    if a.is_oov != b.is_oov || a.dic_id != b.dic_id {
        return Some("dictionary id / OOV flag");
    }
    None
}

pub fn run(ctx: &Ctx, rep: &mut Report) {
    let n_worlds = ctx.n(400, 16000);
    let pool = dictgen::pos_pool();
    for wi in ctx.indices(n_worlds) {
        if ctx.out_of_time() {
            rep.notes.push(format!("stopped at world {} (time budget)", wi));
            break;
        }
        let mut rng = Rng::derive(ctx.seed, 0xC14, wi);
        rep.progress_idx(wi, "C14 world");
        // (no user-dictionary rows with an estimated cost: the loader estimates it with the configured path-rewrite plugins, so
        // the load with the plugins and the reference load without them would hold different costs for the same row)
        let dopts = DictOpts { max_entries: 30, auto_cost: false, ..DictOpts::default() };
        let matrix = dictgen::gen_matrix(&mut rng, &dopts);
        let mut sys = dictgen::gen_system(&mut rng, &dopts, &matrix);
        let nid = matrix.nid() as i64;
        // numeral-POS words for some digits / units, the rest stays out of vocabulary
        for c in "0123456789〇一二三五九十百千万億兆,.".chars() {
            if rng.chance(2, 3) {
                let p = if c == ',' || c == '.' { &pool[2] } else if rng.chance(5, 6) { &pool[1] } else { &pool[0] };
                sys.entries.push(Entry::simple(&c.to_string(), rng.range(0, nid - 1) as i16, rng.range(0, nid - 1) as i16, rng.range(0, 2000) as i16, p));
            }
        }
        // full-width digits as numeral words that keep their spelling (the class is NUMERIC, the plugin cannot read them:
        // they take no part in any merge and stay as they are); they occur in the texts when nothing normalises the input
        for c in "３５７０".chars() {
            if rng.chance(1, 2) {
                sys.entries.push(Entry::simple(&c.to_string(), rng.range(0, nid - 1) as i16, rng.range(0, nid - 1) as i16, rng.range(0, 2000) as i16, &pool[1]));
            }
        }
        // short katakana words with assorted POS
        for k in ["ア", "カ", "イウ", "ネ", "パリ", "ンッ", "ー", "ァ"] {
            if rng.chance(1, 2) {
                sys.entries.push(Entry::simple(k, rng.range(0, nid - 1) as i16, rng.range(0, nid - 1) as i16, rng.range(0, 4000) as i16, rng.pick(&pool)));
            }
        }
        // numerals whose normalised form already is the decimal value (nothing to rewrite for them)
        for (key, norm) in [("一", "1"), ("二十", "20"), ("七", "7")] {
            if rng.chance(1, 2) {
                let mut e = Entry::simple(key, rng.range(0, nid - 1) as i16, rng.range(0, nid - 1) as i16, rng.range(-500, 1500) as i16, &pool[1]);
                e.norm = norm.to_string();
                e.synonyms = vec![77];
                sys.entries.push(e);
            }
        }
        // katakana words whose headword has another byte length than the index key
        for (key, head) in [("コン", "コーン"), ("マウ", "マ"), ("ピュ", "ピュー")] {
            if rng.chance(1, 2) {
                let mut e = Entry::simple(key, rng.range(0, nid - 1) as i16, rng.range(0, nid - 1) as i16, rng.range(0, 3000) as i16, rng.pick(&pool));
                e.headword = head.to_string();
                sys.entries.push(e);
            }
        }
        // a numeral-POS compound with declared A/B units (a merged numeral must not inherit them)
        if rng.chance(1, 2) {
            let base = sys.entries.len();
            for k in ["1", "2"] {
                sys.entries.push(Entry::simple(k, rng.range(0, nid - 1) as i16, rng.range(0, nid - 1) as i16, rng.range(0, 2000) as i16, &pool[1]));
            }
            let mut e = Entry::simple("12", rng.range(0, nid - 1) as i16, rng.range(0, nid - 1) as i16, -800, &pool[1]);
            e.mode = "C";
            e.split_a = vec![crate::model::Ref { dic: 0, row: base, inline: false }, crate::model::Ref { dic: 0, row: base + 1, inline: false }];
            e.split_b = e.split_a.clone();
            sys.entries.push(e);
        }
        // multi-character words over numeral characters with a non-numeral POS
        for k in ["七五三", "一万", "三千", "12", "千万"] {
            if rng.chance(1, 3) {
                sys.entries.push(Entry::simple(k, rng.range(0, nid - 1) as i16, rng.range(0, nid - 1) as i16, rng.range(-500, 2000) as i16, if rng.chance(1, 2) { &pool[0] } else { &pool[1] }));
            }
        }
        let mut p = PluginOpts::random(&mut rng, &matrix, true);
        if p.join_numeric.is_none() && p.join_katakana.is_none() {
            p.join_numeric = Some(rng.chance(1, 2));
            p.join_katakana = Some(1 + rng.below(4));
        }
        p.path_swapped = rng.chance(1, 2);
        p.regex = None;
        let enable_normalize = p.join_numeric == Some(true);
        let world = match guard(|| build_world_from(&mut rng, &dopts, matrix, sys, p, Place::Owned)) {
            Ok(Ok(w)) => w,
            Ok(Err(e)) => {
                rep.count("worlds_rejected", 1);
                rep.notes.push(format!("world {}: {}", wi, clip(&e, 200)));
                continue;
            }
            Err(p) => {
                rep.skipped_panic(&p, json!({"world": wi, "stage": "build"}));
                continue;
            }
        };
        let mut base_cfg = world.cfg_json.clone();
        base_cfg["pathRewritePlugin"] = json!([]);
        let cfg2 = env::config(&base_cfg, &world.res);
        let base = match guard(|| env::load(&cfg2, &world.sys_bytes, &world.user_bytes, Place::Owned)) {
            Ok(Ok(d)) => d,
            _ => {
                rep.notes.push(format!("world {}: base load failed", wi));
                continue;
            }
        };
        rep.count("worlds", 1);
        let keys = world.keys();
        let cc = &world.dict.grammar().character_category;
        for ti in 0..50 {
            let text = textgen::text_from_keys(&mut rng, &keys, 9);
            let mode = MODES[rng.below(3)];
            let mut tw = Tok::new(&world.dict, mode);
            let mut tb = Tok::new(&base, mode);
            rep.eval();
            let rw = guard(|| tw.run(&text).map(|_| observe(&tw.list)));
            let rb = guard(|| tb.run(&text).map(|_| observe(&tb.list)));
            let (nw, nb) = (tw.nranges.clone(), tb.nranges.clone());
            // the plugin-free analysis in mode C: a merged token is built from whole C-mode tokens
            let mut tbc = Tok::new(&base, Mode::C);
            let base_c: Option<(Vec<Obs>, Vec<(usize, usize)>)> = match guard(|| tbc.run(&text).map(|_| observe(&tbc.list))) {
                Ok(Ok(o)) => Some((o, tbc.nranges.clone())),
                _ => None,
            };
            let (ow, ob) = match (rw, rb) {
                (Ok(Ok(a)), Ok(Ok(b))) => (a, b),
                (Err(p), Ok(Ok(b))) => {
                    // the same text analyses fine without the plugins: the rewritten path can not be read back
                    rep.violation("rewritten_path_unreadable", &p.site, &format!("analysis or an accessor panics only with the path-rewrite plugins: {}", p.msg), "",
                        json!({"world_index": wi, "text_index": ti, "text": text, "mode": mode_name(mode), "without_plugins": b.iter().map(|o| json!([o.begin, o.end, o.surface])).collect::<Vec<_>>(), "world": world.describe(true)}));
                    continue;
                }
                (Err(p), _) | (_, Err(p)) => {
                    rep.skipped_panic(&p, json!({"world_index": wi, "text": text}));
                    continue;
                }
                _ => continue,
            };
            let norm = tw.normalized.clone();
            let scen = || json!({"world_index": wi, "text_index": ti, "text": text, "mode": mode_name(mode),
                "with_plugins": ow.iter().map(|o| json!([o.begin, o.end, o.surface, o.pos.join(","), o.norm])).collect::<Vec<_>>(),
                "without_plugins": ob.iter().map(|o| json!([o.begin, o.end, o.surface, o.pos.join(","), o.norm])).collect::<Vec<_>>(),
                "world": world.describe(true)});
            // walk both lists
            let mut bi = 0usize;
            let mut merged_any = false;
            let mut failed = false;
            if nw.len() != ow.len() || nb.len() != ob.len() {
                rep.notes.push("node ranges and morphemes out of step".to_string());
                continue;
            }
            for (wi_, w) in ow.iter().enumerate() {
                // base tokens covered by w, matched on positions of the normalised text
                let (wb, we) = nw[wi_];
                let start = bi;
                if start >= ob.len() || nb[start].0 != wb || ob[start].begin != w.begin {
                    rep.violation("boundary_added", "path rewrite", &format!("token {:?} begins at {} where the analysis without plugins has no boundary", w.surface, w.begin), "", scen());
                    failed = true;
                    break;
                }
                while bi < ob.len() && nb[bi].1 <= we {
                    bi += 1;
                }
                if bi == start || nb[bi - 1].1 != we || ob[bi - 1].end != w.end {
                    rep.violation("boundary_added", "path rewrite", &format!("token {:?} ends at {} where the analysis without plugins has no boundary", w.surface, w.end), "", scen());
                    failed = true;
                    break;
                }
                let covered = &ob[start..bi];
                if covered.len() == 1 {
                    let b = &covered[0];
                    if let Some(diff) = same_token(w, b) {
                        // degenerate merge: a single numeral token whose normalised form is rewritten
                        let numeral = b.pos == pool[1].to_vec();
                        let allowed = enable_normalize && numeral && w.norm != b.norm && w.pos == b.pos && w.reading == b.reading && w.wi_surface == b.wi_surface && w.dict_form == b.dict_form;
                        if !allowed {
                            rep.violation("unmerged_token_changed", "path rewrite", &format!("token {:?} is not part of a merge but its {} differs (pos {:?} -> {:?}, normalised {:?} -> {:?})", w.surface, diff, b.pos.join(","), w.pos.join(","), b.norm, w.norm), "", scen());
                            failed = true;
                            break;
                        } else {
                            rep.count("single_numeral_tokens_renormalised", 1);
                            // the only licence to touch a lone numeral is to normalise it: the new form is the value
                            // of the token itself (the plugin reads the normalised form of the token), whatever
                            // numerals stand elsewhere in the sentence
                            if b.norm.chars().any(|c| !"0123456789〇一二三四五六七八九十百千万億兆,.".contains(c)) {
                                // the plugin reads numerals from these characters only: a token it cannot read is left alone
                                rep.violation("unmerged_token_changed", "path rewrite", &format!("lone token {:?} (normalised form {:?}, which is not a numeral the plugin can read) is given the normalised form {:?}", w.surface, b.norm, w.norm), "", scen());
                                failed = true;
                                break;
                            }
                            match crate::mon_c15::evaluate(&b.norm) {
                                crate::mon_c15::Eval::Value(v) => {
                                    rep.count("single_numeral_values_checked", 1);
                                    if v != w.norm {
                                        rep.violation("unmerged_token_changed", "path rewrite", &format!("lone numeral token {:?} (normalised form {:?} without the plugins, value {}) is given the normalised form {:?}", w.surface, b.norm, v, w.norm), "", scen());
                                        failed = true;
                                        break;
                                    }
                                }
                                _ => rep.count("single_numeral_values_not_defined", 1),
                            }
                        }
                    } else {
                        rep.count("unmerged_tokens_compared", 1);
                    }
                } else {
                    merged_any = true;
                    rep.count("merged_tokens_checked", 1);
                    // which plugin? a katakana merge covers only katakana-class characters
                    let b0 = norm.char_indices().map(|(i, _)| i).collect::<Vec<_>>();
                    let _ = b0;
                    let all_kata = w.surface.chars().count() > 0 && {
                        // classes are defined on the normalised text; use the word-info surfaces of the parts
                        covered.iter().all(|b| b.wi_surface.chars().all(|c| cc.get_category_types(c).contains(CategoryType::KATAKANA)) || b.is_oov)
                            && covered.iter().any(|b| b.wi_surface.chars().any(|c| cc.get_category_types(c).contains(CategoryType::KATAKANA)))
                    };
                    let numeric_like = covered.iter().all(|b| b.norm == "," || b.norm == "." || b.wi_surface.chars().all(|c| cc.get_category_types(c).intersects(CategoryType::NUMERIC | CategoryType::KANJINUMERIC)));
                    if mode != Mode::C {
                        if let Some((oc, nc)) = &base_c {
                            let inside: Vec<usize> = (0..oc.len()).filter(|k| nc[*k].0 >= wb && nc[*k].1 <= we && nc[*k].1 > nc[*k].0).collect();
                            let whole = !inside.is_empty() && nc[inside[0]].0 == wb && nc[*inside.last().unwrap()].1 == we;
                            if !whole {
                                rep.violation("merged_token_cuts_a_word", "path rewrite", &format!("mode {}: merged token {:?} (chars {}..{} of the normalised text) is not made of whole mode-C tokens of the plugin-free analysis", mode_name(mode), w.surface, wb, we), "", scen());
                                failed = true;
                                break;
                            }
                            let concat: String = inside.iter().map(|k| oc[*k].wi_surface.as_str()).collect();
                            if w.wi_surface != concat {
                                rep.violation("merged_surface", "path rewrite", &format!("mode {}: merged token has dictionary-side surface {:?}, the mode-C tokens it covers concatenate to {:?}", mode_name(mode), w.wi_surface, concat), "", scen());
                                failed = true;
                                break;
                            }
                        }
                    }
                    if mode == Mode::C {
                        let concat: String = covered.iter().map(|b| b.wi_surface.as_str()).collect();
                        if w.wi_surface != concat {
                            rep.violation("merged_surface", "path rewrite", &format!("merged token has dictionary-side surface {:?}, its parts concatenate to {:?}", w.wi_surface, concat), "", scen());
                            failed = true;
                            break;
                        }
                    }
                    let kata_pos = pool[0].to_vec();
                    let num_pos = pool[1].to_vec();
                    let ok_pos = if numeric_like && !all_kata {
                        w.pos == num_pos
                    } else if all_kata && !numeric_like {
                        w.pos == kata_pos
                    } else {
                        w.pos == num_pos || w.pos == kata_pos
                    };
                    if !ok_pos {
                        rep.violation("merged_pos", "path rewrite", &format!("merged token {:?} carries POS {:?} (numeral POS {:?}, katakana OOV POS {:?})", w.surface, w.pos.join(","), num_pos.join(","), kata_pos.join(",")), "", scen());
                        failed = true;
                        break;
                    }
                }
            }
            if !failed && bi != ob.len() {
                rep.violation("token_dropped", "path rewrite", &format!("{} tokens of the analysis without plugins are not covered", ob.len() - bi), "", scen());
                failed = true;
            }
            if !failed && merged_any {
                rep.nontrivial(fnv(format!("{}|{}|{}", wi, mode_name(mode), text).as_bytes()));
                if rep.want_sample() {
                    rep.sample(json!({"text": text, "mode": mode_name(mode), "with": ow.iter().map(|o| o.surface.clone()).collect::<Vec<_>>(), "without": ob.iter().map(|o| o.surface.clone()).collect::<Vec<_>>(), "pathRewritePlugin": world.cfg_json["pathRewritePlugin"]}));
                }
            }
        }
    }
}
