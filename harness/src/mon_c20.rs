//! C20 — out-of-range plugin parameters are rejected when the dictionary is loaded.
//! Enumeration of the statement's grid rather than sampling.

use serde_json::{json, Value};
use sudachi::analysis::stateless_tokenizer::DictionaryAccess;
use sudachi::analysis::Mode;

use crate::dictgen;
use crate::env::{self, Place, ResDir, CLS};
use crate::model::{pos, Entry, Lexicon, Matrix, Pos};
use crate::report::{clip, guard, Report};
use crate::rng::{fnv, Rng};
use crate::scen::Tok;
use crate::Ctx;

struct Shape {
    m: Matrix,
    res: ResDir,
    sys_bytes: Vec<u8>,
    keys: Vec<String>,
}

fn build_shape(rng: &mut Rng, nl: usize, nr: usize) -> Result<Shape, String> {
    let mut m = Matrix::new(nl, nr);
    for a in 0..nl {
        for b in 0..nr {
            m.set(a, b, rng.range(-300, 3000) as i16);
        }
    }
    let pool = dictgen::pos_pool();
    let mut lex = Lexicon::default();
    let nid = m.nid();
    let words = ["あ", "い", "う", "え", "お", "か", "き"];
    let mut keys = vec![];
    for (i, w) in words.iter().enumerate() {
        // ids cover 0..nid-1 on both sides
        lex.entries.push(Entry::simple(w, (i % nid) as i16, ((i + 1) % nid) as i16, 100 + i as i16, &pool[i % 3]));
        keys.push(w.to_string());
    }
    let res = ResDir::standard();
    let bytes = env::compile_system(lex.to_csv(None).as_bytes(), m.to_text().as_bytes()).map_err(|e| format!("{:?}", e))?;
    Ok(Shape { m, res, sys_bytes: bytes, keys })
}

#[derive(Clone, Debug)]
enum Kind {
    Simple,
    Regex,
    MeCab,
}

#[derive(Clone, Debug)]
struct Case {
    kind: Kind,
    left: i64,
    right: i64,
    cost: i64,
    pos: Pos,
    pos_exists: bool,
    user_pos: Option<&'static str>,
    /// 0: the only / first definition; 1: placed after a valid definition of the same kind
    /// (second plugin of the list, later line of unk.def)
    slot: u8,
}

fn case_cfg(c: &Case, sh: &Shape) -> Value {
    let pool = dictgen::pos_pool();
    let fallback = env::simple_oov(&pool[0], 0, 0, 20000);
    let mut oov = vec![];
    match c.kind {
        Kind::Simple => {
            let mut v = json!({"class": format!("{}SimpleOovPlugin", CLS), "oovPOS": c.pos.to_vec(), "leftId": c.left, "rightId": c.right, "cost": c.cost});
            if let Some(u) = c.user_pos {
                v["userPOS"] = json!(u);
            }
            if c.slot == 1 {
                oov.push(json!({"class": format!("{}RegexOovProvider", CLS), "oovPOS": pool[0].to_vec(), "leftId": 0, "rightId": 0, "cost": 100, "regex": "[ⓩ]+", "boundaries": "relaxed"}));
            }
            oov.push(v);
        }
        Kind::Regex => {
            let mut v = json!({"class": format!("{}RegexOovProvider", CLS), "oovPOS": c.pos.to_vec(), "leftId": c.left, "rightId": c.right, "cost": c.cost,
                "regex": "[ⓧⓨ]+", "boundaries": "relaxed"});
            if let Some(u) = c.user_pos {
                v["userPOS"] = json!(u);
            }
            if c.slot == 1 {
                oov.push(env::simple_oov(&pool[0], 0, 0, 15000));
            }
            oov.push(v);
            oov.push(fallback);
        }
        Kind::MeCab => {
            if c.slot == 1 {
                // the questioned line is neither the first nor the last one, and not the first of its category
                sh.res.write("unk.def", &format!("DEFAULT,0,0,9000,{}\nKANJI,0,0,9000,{}\nKANJI,{},{},{},{}\nNUMERIC,0,0,9000,{}\n",
                    pool[0].join(","), pool[0].join(","), c.left, c.right, c.cost, c.pos.join(","), pool[0].join(",")));
            } else {
            sh.res.write("unk.def", &format!("DEFAULT,{},{},{},{}\n", c.left, c.right, c.cost, c.pos.join(",")));
            }
            let mut v = json!({"class": format!("{}MeCabOovPlugin", CLS), "charDef": "char.def", "unkDef": "unk.def"});
            if let Some(u) = c.user_pos {
                v["userPOS"] = json!(u);
            }
            oov.push(v);
            oov.push(fallback);
        }
    }
    json!({"characterDefinitionFile": "char.def", "oovProviderPlugin": oov})
}

fn valid(c: &Case, m: &Matrix) -> bool {
    // a word's left id indexes the second coordinate of the matrix, its right id the first
    let ids = c.left >= 0 && (c.left as usize) < m.nr && c.right >= 0 && (c.right as usize) < m.nl;
    let cost = c.cost >= i16::MIN as i64 && c.cost <= i16::MAX as i64;
    let pos = c.pos_exists || c.user_pos == Some("allow");
    // unk.def numbers are read as 16-bit values: anything else is a parse error, which is an error value too
    ids && cost && pos
}

/// What the tree accepts with the known finding D1 (`>` instead of `>=`)
fn pinned_accepts(c: &Case, m: &Matrix) -> bool {
    let fits16 = |v: i64| v >= i16::MIN as i64 && v <= i16::MAX as i64;
    let parse_ok = match c.kind {
        Kind::MeCab => fits16(c.left) && fits16(c.right),
        _ => true,
    };
    let ids = c.left >= 0 && (c.left as usize) <= m.nr && c.right >= 0 && (c.right as usize) <= m.nl;
    let cost = fits16(c.cost);
    let pos = c.pos_exists || c.user_pos == Some("allow");
    parse_ok && ids && cost && pos
}

/// the rule with only the off-by-one corrected
fn d1_corrected_accepts(c: &Case, m: &Matrix) -> bool {
    let fits16 = |v: i64| v >= i16::MIN as i64 && v <= i16::MAX as i64;
    let ids = c.left >= 0 && (c.left as usize) < m.nl && c.right >= 0 && (c.right as usize) < m.nr;
    ids && fits16(c.cost) && (c.pos_exists || c.user_pos == Some("allow"))
}

/// label of the known finding that explains a disagreement between the observed outcome and the
/// correct rule, "" if nothing known explains it
fn known_label(c: &Case, m: &Matrix, observed_accept: bool) -> &'static str {
    let truth = valid(c, m);
    if observed_accept == truth || observed_accept != pinned_accepts(c, m) {
        return "";
    }
    let _ = d1_corrected_accepts(c, m);
    "D1"
}

fn boundary_values(m: &Matrix) -> Vec<i64> {
    let (n, k) = (m.nl as i64, m.nr as i64);
    // incl. values that are valid ids modulo 2^16 / 2^32 and the ends of the 16-bit range
    let mut v = vec![-1, 0, n - 1, n, n + 1, k - 1, k, k + 1, 32767, 32768, 65535, 65536, 65536 + n - 1, 65536 + k - 1, -65536, -32768, -32769,
        (1i64 << 32), (1i64 << 32) + n - 1, i64::MAX, i64::MIN + 1];
    v.sort();
    v.dedup();
    v
}

/// tokenizes texts that put the configured OOV node next to every dictionary word; hooks must stay silent
fn exercise(dict: &sudachi::dic::dictionary::JapaneseDictionary, keys: &[String], rep: &mut Report) -> Result<(), (String, String, String)> {
    let before = sudachi::verif::counters();
    let mut t = Tok::new(dict, Mode::C);
    for k in keys {
        for text in [format!("{}ⓧ{}", k, k), format!("ⓧⓨ{}", k), format!("{}ⓨ", k), "ⓧ".to_string()] {
            match guard(|| t.run(&text)) {
                Ok(Ok(())) => {}
                Ok(Err(e)) => return Err(("analysis_error".into(), "do_tokenize".into(), format!("{:?} for {:?}", e, text))),
                Err(p) => return Err(("panic".into(), p.site, format!("{} (text {:?})", p.msg, text))),
            }
            rep.count("analyses_with_accepted_configuration", 1);
        }
    }
    let after = sudachi::verif::counters();
    rep.count("matrix_reads_seen_by_hook", after[0] - before[0]);
    if after[1] != before[1] {
        let what = sudachi::verif::take_first_oob().unwrap_or_default();
        return Err(("oob_access".into(), "hook H2".into(), what));
    }
    Ok(())
}

pub fn run(ctx: &Ctx, rep: &mut Report) {
    let shapes_quick: &[(usize, usize)] = &[(1, 1), (2, 2), (3, 3), (7, 7), (2, 3), (3, 2), (1, 4), (7, 2)];
    let shapes_thorough: &[(usize, usize)] = &[
        (1, 1), (2, 2), (3, 3), (7, 7), (2, 3), (3, 2), (1, 4), (7, 2), (4, 1), (2, 7), (5, 5), (12, 12), (12, 3), (3, 12), (1, 2), (2, 1),
    ];
    let mut shapes: Vec<(usize, usize)> = (if ctx.quick() { shapes_quick } else { shapes_thorough }).to_vec();
    {
        // plus seeded random shapes (more of them in the thorough tier; the time budget bounds the run)
        let mut r = Rng::derive(ctx.seed, 0xC20F, 0);
        for _ in 0..ctx.n(8, 400) {
            shapes.push((1 + r.below(40), 1 + r.below(40)));
        }
    }
    let pool = dictgen::pos_pool();
    let missing_pos = pos(["存在", "しない", "品詞", "*", "*", "*"]);
    // work items = (shape, kind) pairs, distributed over the shards
    let kinds = [Kind::Simple, Kind::Regex, Kind::MeCab];
    let mut item = 0u64;
    for (si, (nl, nr)) in shapes.iter().enumerate() {
        if ctx.out_of_time() {
            rep.notes.push(format!("stopped at shape {} (time budget)", si));
            break;
        }
        for kind in kinds.iter().chain([Kind::Simple].iter()) {
            let inhibit_item = item % 4 == 3;
            item += 1;
            let idx = item - 1;
            if ctx.only.map(|o| o != idx).unwrap_or(idx % ctx.nshards != ctx.shard) {
                continue;
            }
            rep.progress_idx(idx, "C20 grid item");
            let mut rng = Rng::derive(ctx.seed, 0xC20, si as u64);
            let sh = match build_shape(&mut rng, *nl, *nr) {
                Ok(s) => s,
                Err(e) => {
                    rep.notes.push(format!("shape {}x{}: {}", nl, nr, e));
                    continue;
                }
            };
            let vals = boundary_values(&sh.m);
            if inhibit_item {
                // inhibited-connection pairs
                for a in &vals {
                    for b in &vals {
                        rep.eval();
                        // the questioned pair alone, or after a valid pair (which must then be inhibited as well)
                        let second = (*a ^ *b) & 1 != 0;
                        let pairs = if second { json!([[0, 0], [a, b]]) } else { json!([[a, b]]) };
                        let cfg_json = json!({"characterDefinitionFile": "char.def",
                            "oovProviderPlugin": [env::simple_oov(&pool[0], 0, 0, 20000)],
                            "connectionCostPlugin": [{"class": format!("{}InhibitConnectionPlugin", CLS), "inhibitPair": pairs}]});
                        let cfg = env::config(&cfg_json, &sh.res);
                        let exp_ok = *a >= 0 && (*a as usize) < sh.m.nl && *b >= 0 && (*b as usize) < sh.m.nr;
                        let scen = || json!({"matrix": format!("{}x{}", nl, nr), "inhibitPair": [a, b], "config": cfg_json});
                        if a.saturating_sub(sh.m.nl as i64).saturating_abs() <= 1 || b.saturating_sub(sh.m.nr as i64).saturating_abs() <= 1 {
                            rep.nontrivial(fnv(format!("I{}x{}|{}|{}", nl, nr, a, b).as_bytes()));
                        }
                        match guard(|| env::load(&cfg, &sh.sys_bytes, &[], Place::Owned)) {
                            Err(p) => rep.violation("load_panic", &p.site, &format!("inhibitPair [{}, {}] on a {}x{} matrix: {}", a, b, nl, nr, p.msg), "", scen()),
                            Ok(Err(_)) => {
                                rep.count("configurations_rejected", 1);
                                if exp_ok {
                                    rep.violation("valid_rejected", "from_cfg_storage", &format!("inhibitPair [{}, {}] is inside the {}x{} matrix but loading fails", a, b, nl, nr), "", scen());
                                }
                            }
                            Ok(Ok(d)) => {
                                rep.count("configurations_accepted", 1);
                                if !exp_ok {
                                    rep.violation("invalid_accepted", "from_cfg_storage", &format!("inhibitPair [{}, {}] is outside the {}x{} matrix but loading succeeds", a, b, nl, nr), "", scen());
                                    continue;
                                }
                                // exactly the inhibited cell changed
                                let cm = d.grammar().conn_matrix();
                                let cells = guard(|| {
                                    let mut bad = None;
                                    for x in 0..sh.m.nl {
                                        for y in 0..sh.m.nr {
                                            let exp = if (x as i64 == *a && y as i64 == *b) || (second && x == 0 && y == 0) { i16::MAX } else { sh.m.cost(x, y) };
                                            if cm.cost(x as u16, y as u16) != exp {
                                                bad = Some((x, y, cm.cost(x as u16, y as u16), exp));
                                            }
                                        }
                                    }
                                    bad
                                });
                                rep.count("matrix_cells_read_back", (sh.m.nl * sh.m.nr) as u64);
                                match cells {
                                    Ok(None) => {}
                                    Ok(Some((x, y, got, exp))) => rep.violation("wrong_cell_edited", "conn_matrix", &format!("after inhibiting [{}, {}] cell ({},{}) is {} instead of {}", a, b, x, y, got, exp), "", scen()),
                                    Err(p) => rep.violation("panic", &p.site, &p.msg, "", scen()),
                                }
                            }
                        }
                    }
                }
                continue;
            }
            // OOV provider parameters: ids grid, then cost and POS variants at valid ids
            let mut cases: Vec<Case> = vec![];
            for l in &vals {
                for r in &vals {
                    cases.push(Case { kind: kind.clone(), left: *l, right: *r, cost: 5000, pos: pool[0].clone(), pos_exists: true, user_pos: None, slot: 0 });
                }
            }
            for cost in [-32769i64, -32768, -1, 0, 32767, 32768, 65535, 100000] {
                cases.push(Case { kind: kind.clone(), left: 0, right: 0, cost, pos: pool[0].clone(), pos_exists: true, user_pos: None, slot: 0 });
            }
            // the same questions for a definition that is not the first one of its kind
            {
                let (n, k) = (sh.m.nl as i64, sh.m.nr as i64);
                for l in [0, n - 1, n, k - 1, k, k + 1, -1, 65536] {
                    for r in [0, n - 1, n, n + 1, k - 1, k, -1, 65536] {
                        cases.push(Case { kind: kind.clone(), left: l, right: r, cost: 5000, pos: pool[0].clone(), pos_exists: true, user_pos: None, slot: 1 });
                    }
                }
                for cost in [-32769i64, -32768, 32767, 32768, 70000] {
                    cases.push(Case { kind: kind.clone(), left: 0, right: 0, cost, pos: pool[0].clone(), pos_exists: true, user_pos: None, slot: 1 });
                }
                for up in [None, Some("allow"), Some("forbid")] {
                    cases.push(Case { kind: kind.clone(), left: 0, right: 0, cost: 100, pos: missing_pos.clone(), pos_exists: false, user_pos: up, slot: 1 });
                }
            }
            // "*" is an ordinary component: 名詞,*,*,*,*,* does not exist just because 名詞,普通名詞,一般,*,*,* does
            let star_pos = pos([pool[0][0].as_str(), "*", "*", "*", "*", "*"]);
            for up in [None, Some("allow"), Some("forbid")] {
                cases.push(Case { kind: kind.clone(), left: 0, right: 0, cost: 100, pos: star_pos.clone(), pos_exists: false, user_pos: up, slot: 0 });
            }
            for (exists, p) in [(true, pool[1].clone()), (false, missing_pos.clone())] {
                for up in [None, Some("allow"), Some("forbid")] {
                    cases.push(Case { kind: kind.clone(), left: 0, right: 0, cost: 100, pos: p.clone(), pos_exists: exists, user_pos: up, slot: 0 });
                    // an invalid id stays invalid whatever the POS setting
                    cases.push(Case { kind: kind.clone(), left: sh.m.nr as i64, right: 0, cost: 100, pos: p.clone(), pos_exists: exists, user_pos: up, slot: 0 });
                }
            }
            // POS with a wrong number of components never "exists" and can not be registered either
            for arity in [0usize, 1, 3, 5, 7] {
                if matches!(kind, Kind::MeCab) && arity > 6 {
                    // an unk.def line simply has more columns than are read: not a POS of 7 components
                    continue;
                }
                for up in [None, Some("allow"), Some("forbid")] {
                    let mut p: Vec<String> = pool[0].to_vec();
                    p.truncate(arity.min(6));
                    while p.len() < arity {
                        p.push("*".to_string());
                    }
                    rep.eval();
                    let mut v = json!({"class": format!("{}SimpleOovPlugin", CLS), "oovPOS": p, "leftId": 0, "rightId": 0, "cost": 100});
                    let mut oov = vec![];
                    match kind {
                        Kind::Simple => {}
                        Kind::Regex => {
                            v["class"] = json!(format!("{}RegexOovProvider", CLS));
                            v["regex"] = json!("[ⓧⓨ]+");
                        }
                        Kind::MeCab => {
                            sh.res.write("unk.def", &format!("DEFAULT,0,0,100,{}\n", p.join(",")));
                            v = json!({"class": format!("{}MeCabOovPlugin", CLS), "charDef": "char.def", "unkDef": "unk.def"});
                        }
                    }
                    if let Some(u) = up {
                        v["userPOS"] = json!(u);
                    }
                    oov.push(v);
                    oov.push(env::simple_oov(&pool[0], 0, 0, 20000));
                    let cfg_json = json!({"characterDefinitionFile": "char.def", "oovProviderPlugin": oov});
                    let cfg = env::config(&cfg_json, &sh.res);
                    let scen = || json!({"matrix": format!("{}x{}", nl, nr), "pos_components": arity, "userPOS": up, "config": cfg_json});
                    rep.nontrivial(fnv(format!("arity{}x{}|{:?}|{}|{:?}", nl, nr, kind, arity, up).as_bytes()));
                    match guard(|| env::load(&cfg, &sh.sys_bytes, &[], Place::Owned)) {
                        Err(pn) => rep.violation("load_panic", &pn.site, &format!("POS with {} components: {}", arity, pn.msg), "", scen()),
                        Ok(Err(_)) => rep.count("configurations_rejected", 1),
                        Ok(Ok(_)) => {
                            rep.count("configurations_accepted", 1);
                            rep.violation("invalid_accepted", "from_cfg_storage", &format!("{:?} provider with a part of speech of {} components (userPOS {:?}) is accepted: such a POS neither exists nor can be registered", kind, arity, up), "", scen());
                        }
                    }
                }
            }
            for c in cases {
                rep.eval();
                let cfg_json = case_cfg(&c, &sh);
                let cfg = env::config(&cfg_json, &sh.res);
                let exp_ok = valid(&c, &sh.m);
                let scen = || json!({"matrix": format!("{}x{}", nl, nr), "case": format!("{:?}", c), "config": cfg_json});
                let near = |v: i64, n: usize| v.saturating_sub(n as i64).saturating_abs() <= 1;
                if near(c.left, sh.m.nl) || near(c.left, sh.m.nr) || near(c.right, sh.m.nl) || near(c.right, sh.m.nr) || !c.pos_exists || c.cost.saturating_abs() >= 32767 {
                    rep.nontrivial(fnv(format!("{}x{}|{:?}", nl, nr, c).as_bytes()));
                }
                match guard(|| env::load(&cfg, &sh.sys_bytes, &[], Place::Owned)) {
                    Err(p) => rep.violation("load_panic", &p.site, &format!("{:?} on a {}x{} matrix: {}", c, nl, nr, p.msg), "", scen()),
                    Ok(Err(e)) => {
                        rep.count("configurations_rejected", 1);
                        if exp_ok {
                            rep.violation("valid_rejected", "from_cfg_storage", &format!("{:?} is valid for a {}x{} matrix but loading fails: {}", c, nl, nr, clip(&format!("{:?}", e), 160)), known_label(&c, &sh.m, false), scen());
                        }
                    }
                    Ok(Ok(d)) => {
                        rep.count("configurations_accepted", 1);
                        let label = known_label(&c, &sh.m, true);
                        if !exp_ok {
                            rep.violation("invalid_accepted", "from_cfg_storage", &format!("{:?} is invalid for a {}x{} matrix (left id must be < {}, right id < {}) but loading succeeds", c, nl, nr, sh.m.nr, sh.m.nl), label, scen());
                            // still look at what analysis does with it (the "consequently" clause)
                        }
                        if let Err((kind_, site, msg)) = exercise(&d, &sh.keys, rep) {
                            if exp_ok || kind_ != "analysis_error" {
                                rep.violation(&kind_, &site, &format!("{:?} on a {}x{} matrix: {}", c, nl, nr, msg), label, scen());
                            }
                        }
                    }
                }
            }
            if rep.want_sample() {
                rep.sample(json!({"matrix": format!("{}x{}", nl, nr), "kind": format!("{:?}", kind), "id_values": vals}));
            }
        }
    }
    // path-rewrite plugins name parts of speech as well: they must exist (these plugins have no userPOS switch)
    if ctx.shard == 1 % ctx.nshards && ctx.only.is_none() {
        rep.progress_idx(u64::MAX - 200, "C20 path-rewrite POS");
        let mut rng = Rng::derive(ctx.seed, 0xC20E, 0);
        if let Ok(sh) = build_shape(&mut rng, 3, 3) {
            for (exists, p) in [(true, pool[0].clone()), (true, pool[2].clone()), (false, missing_pos.clone())] {
                for slot in 0..2 {
                    rep.eval();
                    let mut path = vec![];
                    if slot == 1 {
                        path.push(json!({"class": format!("{}JoinNumericPlugin", CLS)}));
                    }
                    path.push(json!({"class": format!("{}JoinKatakanaOovPlugin", CLS), "oovPOS": p.to_vec(), "minLength": 2}));
                    let cfg_json = json!({"characterDefinitionFile": "char.def", "oovProviderPlugin": [env::simple_oov(&pool[0], 0, 0, 20000)], "pathRewritePlugin": path});
                    let cfg = env::config(&cfg_json, &sh.res);
                    let scen = || json!({"matrix": "3x3", "config": cfg_json});
                    rep.nontrivial(fnv(format!("kata|{}|{}", exists, slot).as_bytes()));
                    match guard(|| env::load(&cfg, &sh.sys_bytes, &[], Place::Owned)) {
                        Err(pn) => rep.violation("load_panic", &pn.site, &format!("JoinKatakanaOovPlugin with oovPOS {:?}: {}", p, pn.msg), "", scen()),
                        Ok(Err(e)) => {
                            rep.count("configurations_rejected", 1);
                            if exists {
                                rep.violation("valid_rejected", "from_cfg_storage", &format!("JoinKatakanaOovPlugin with the existing part of speech {:?} is rejected: {}", p, clip(&format!("{:?}", e), 160)), "", scen());
                            }
                        }
                        Ok(Ok(d)) => {
                            rep.count("configurations_accepted", 1);
                            if !exists {
                                rep.violation("invalid_accepted", "from_cfg_storage", &format!("JoinKatakanaOovPlugin with the part of speech {:?}, which does not exist in the dictionary, is accepted", p), "", scen());
                            } else if let Err((k, site, msg)) = exercise(&d, &sh.keys, rep) {
                                rep.violation(&k, &site, &msg, "", scen());
                            }
                        }
                    }
                }
            }
        }
        // numeral joining needs the numeral part of speech: a dictionary without it cannot take the plugin
        let m = Matrix::new(2, 2);
        let mut lex = Lexicon::default();
        lex.entries.push(Entry::simple("あ", 0, 0, 100, &pool[0]));
        lex.entries.push(Entry::simple("い", 1, 1, 100, &pool[2]));
        let res = ResDir::standard();
        if let Ok(bytes) = env::compile_system(lex.to_csv(None).as_bytes(), m.to_text().as_bytes()) {
            rep.eval();
            let cfg_json = json!({"characterDefinitionFile": "char.def", "oovProviderPlugin": [env::simple_oov(&pool[0], 0, 0, 20000)],
                "pathRewritePlugin": [{"class": format!("{}JoinNumericPlugin", CLS)}]});
            let cfg = env::config(&cfg_json, &res);
            rep.nontrivial(fnv(b"numeric-without-pos"));
            match guard(|| env::load(&cfg, &bytes, &[], Place::Owned)) {
                Err(pn) => rep.violation("load_panic", &pn.site, &format!("JoinNumericPlugin on a dictionary without the numeral part of speech: {}", pn.msg), "", json!({"config": cfg_json})),
                Ok(Err(_)) => rep.count("configurations_rejected", 1),
                Ok(Ok(_)) => {
                    rep.count("configurations_accepted", 1);
                    rep.violation("invalid_accepted", "from_cfg_storage", "JoinNumericPlugin is accepted although its part of speech (名詞,数詞,*,*,*,*) does not exist in the dictionary", "", json!({"config": cfg_json}));
                }
            }
        }
    }
}
