//! C04 — dictionary lookup returns exactly the entries that prefix-match the text.

use serde_json::json;
use std::collections::HashMap;
use sudachi::dic::subset::InfoSubset;
use sudachi::prelude::MorphemeList;

use crate::dictgen::{self, DictOpts};
use crate::env::{self, Place};
use crate::model::{Entry, Lexicon};
use crate::report::{clip, guard, Report};
use crate::rng::{fnv, Rng};
use crate::scen::{build_world_from, PluginOpts, World};
use crate::textgen;
use crate::Ctx;

/// key bytes -> (dic, row) of every indexed entry of every layer
pub fn index_model(world: &World) -> (HashMap<Vec<u8>, Vec<(u8, u32)>>, usize) {
    let mut map: HashMap<Vec<u8>, Vec<(u8, u32)>> = HashMap::new();
    let mut maxlen = 0;
    for dic in 0..=world.users.len() {
        for (row, e) in world.lexicon_of(dic).entries.iter().enumerate() {
            if e.indexed() {
                maxlen = maxlen.max(e.key.len());
                map.entry(e.key.as_bytes().to_vec()).or_default().push((dic as u8, row as u32));
            }
        }
    }
    (map, maxlen)
}

fn stress_lexicon(rng: &mut Rng, lex: &mut Lexicon, nid: i64, size_class: u64) {
    let pool = dictgen::pos_pool();
    let mut add = |rng: &mut Rng, lex: &mut Lexicon, key: &str| {
        let mut e = Entry::simple(key, rng.range(0, nid - 1) as i16, rng.range(0, nid - 1) as i16, rng.range(0, 9000) as i16, rng.pick(&pool));
        if rng.chance(1, 12) {
            e.left = -1;
        }
        lex.entries.push(e);
    };
    // homographs
    if rng.chance(1, 2) {
        let k = textgen::random_key(rng, 3);
        // 127 entries per key is the format limit: more must be rejected by the compiler (the world is then
        // counted as rejected), never compiled into a table that returns only part of them
        let mut h = *rng.pick(&[2usize, 3, 10, 126, 127, 127, 128, 255, 256, 257, 300]);
        if size_class == 4 && h > 127 {
            // the one huge world of a quick run must compile: its observations are required
            h = 127;
        }
        let first = lex.entries.len();
        for _ in 0..h {
            add(rng, lex, &k);
        }
        if (126..=128).contains(&h) && rng.chance(2, 3) {
            // all of them indexed: exactly 126 / 127 (the most the format holds) / 128 entries under one key
            for e in lex.entries[first..].iter_mut() {
                if e.left < 0 {
                    e.left = 0;
                }
            }
        }
    }
    // prefix chain
    if rng.chance(1, 2) {
        let mut k = String::new();
        for _ in 0..2 + rng.below(6) {
            let pool = *rng.pick(textgen::KEY_POOLS);
            k.push_str(rng.s(pool));
            if rng.chance(3, 4) {
                add(rng, lex, &k);
            }
        }
    }
    // astral / single byte / odd keys
    for k in ["𠮷", "𠮷野", "👍", "👍🏻", "a", "b", "ab", " ", "é", "\u{301}", "\u{7f}", "\u{80}", "\u{ffff}", "\u{10ffff}"] {
        if rng.chance(1, 4) {
            add(rng, lex, k);
        }
    }
    // bulk: many random keys so that the word-id table grows
    let bulk = match size_class {
        0 => 0,
        1 => 100 + rng.below(400),
        2 => 1000 + rng.below(3000),
        3 => 20000 + rng.below(50000),
        // a double array of more than 2^20 units: the high bits of node offsets are in use
        _ => 330000,
    };
    for _ in 0..bulk {
        let k = if size_class >= 4 || rng.chance(1, 3) {
            // random bytes-ish keys over a wide alphabet
            let n = if size_class >= 4 { 2 + rng.below(3) } else { 1 + rng.below(3) };
            (0..n).map(|_| char::from_u32(0x3041 + rng.below(0x1000) as u32).unwrap_or('x')).collect::<String>()
        } else {
            textgen::random_key(rng, 4)
        };
        add(rng, lex, &k);
    }
}

pub fn run(ctx: &Ctx, rep: &mut Report) {
    let small = matches!(ctx.stage.as_str(), "valgrind" | "miri");
    let n_worlds = match ctx.stage.as_str() {
        "miri" => ctx.nshards,
        "valgrind" => ctx.nshards * 3,
        "asan" => ctx.n(160, 1600),
        _ => ctx.n(320, 12000),
    };
    for wi in ctx.indices(n_worlds) {
        if ctx.out_of_time() {
            rep.notes.push(format!("stopped at world {} (time budget)", wi));
            break;
        }
        let mut rng = Rng::derive(ctx.seed, 0xC04, wi);
        rep.progress_idx(wi, "C04 world");
        // every fourth stack: user lexicons that use system parts of speech only, re-encoded below in the first
        // user-dictionary layout
        let v1_stack = !small && wi % 4 == 1;
        let dopts = DictOpts { splits: false, forms: false, synonyms: false, system_pos_user_layers: v1_stack, ..DictOpts::default() };
        let matrix = dictgen::gen_matrix(&mut rng, &dopts);
        let mut sys = dictgen::gen_system(&mut rng, &dopts, &matrix);
        // size classes: most worlds small, some with hundreds / thousands of keys, a few huge ones (thorough)
        let size_class = match wi % 40 {
            _ if small => (wi % 2) as u64,
            5 if ctx.stage == "main" && (wi == 5 || (!ctx.quick() && wi % 1600 == 5)) => 4,
            0 if !ctx.quick() => 3,
            1 | 2 => 2,
            x if x % 4 == 3 => 1,
            _ => 0,
        };
        stress_lexicon(&mut rng, &mut sys, matrix.nid() as i64, size_class);
        let mut popts = PluginOpts::none();
        // (15 user dictionaries are one too many: such a stack must be refused, and is then counted as a rejected world)
        popts.n_users = if small { rng.below(3) } else { *rng.pick(&[0usize, 0, 1, 2, 3, 3, 5, 7, 14, 14, 15]) };
        if size_class == 4 && popts.n_users == 15 {
            // the one huge world of a quick run must load: its observations are required
            popts.n_users = 14;
        }
        let world = match guard(|| build_world_from(&mut rng, &dopts, matrix, sys, popts, if wi % 3 == 0 || small { Place::Offset(1) } else { Place::Owned })) {
            Ok(Ok(w)) => w,
            Ok(Err(e)) => {
                rep.count("worlds_rejected", 1);
                if e.contains("TooManyDictionaries") {
                    rep.count("stacks_of_15_user_dictionaries_refused", 1);
                } else {
                    rep.notes.push(format!("world {}: {}", wi, clip(&e, 200)));
                }
                continue;
            }
            Err(p) => {
                rep.skipped_panic(&p, json!({"world": wi, "stage": "build"}));
                continue;
            }
        };
        let world = if v1_stack && !world.user_bytes.is_empty() {
            let mut w = world;
            let mut n_v1 = 0;
            let v1: Vec<Vec<u8>> = w.user_bytes.iter().map(|b| match crate::mon_c12::to_v1(b) {
                Some(x) => {
                    n_v1 += 1;
                    x
                }
                None => b.clone(),
            }).collect();
            if n_v1 > 0 {
                let cfg = crate::env::config(&w.cfg_json, &w.res);
                match guard(|| crate::env::load(&cfg, &w.sys_bytes, &v1, Place::Owned)) {
                    Ok(Ok(d)) => {
                        w.dict = d;
                        w.user_bytes = v1;
                        rep.count("stacks_with_version_1_user_dictionaries", 1);
                    }
                    Ok(Err(e)) => {
                        rep.violation("load_error", "from_cfg_storage", &format!("the stack loads with version-3 user dictionaries but not when those without own POS are written in the version-1 layout: {:?}", e), "", json!({"world_index": wi}));
                        continue;
                    }
                    Err(pn) => {
                        rep.violation("load_panic", &pn.site, &format!("user dictionaries in the version-1 layout: {}", pn.msg), "", json!({"world_index": wi}));
                        continue;
                    }
                }
            }
            w
        } else {
            world
        };
        // every fourth stack: the user dictionaries carry the magic number of the second user-dictionary format (same
        // layout as the third): the stack must load and answer every lookup like any other
        let world = if !small && wi % 4 == 3 && !world.user_bytes.is_empty() && world.user_bytes.len() < 15 {
            let mut w = world;
            let v2: Vec<Vec<u8>> = w.user_bytes.iter().map(|b| {
                let mut b = b.clone();
                if b.len() >= 8 && b[..8] == 0xca9811756ff64fb0u64.to_le_bytes() {
                    b[..8].copy_from_slice(&0x9fdeb5a90168d868u64.to_le_bytes());
                }
                b
            }).collect();
            let cfg = crate::env::config(&w.cfg_json, &w.res);
            match guard(|| crate::env::load(&cfg, &w.sys_bytes, &v2, Place::Owned)) {
                Ok(Ok(d)) => {
                    w.dict = d;
                    w.user_bytes = v2;
                    rep.count("stacks_with_version_2_user_dictionaries", 1);
                }
                Ok(Err(e)) => {
                    rep.violation("load_error", "from_cfg_storage", &format!("the stack loads with version-3 user dictionaries but not when they carry the version-2 magic number: {:?}", e), "", json!({"world_index": wi}));
                    continue;
                }
                Err(pn) => {
                    rep.violation("load_panic", &pn.site, &format!("user dictionaries with the version-2 magic number: {}", pn.msg), "", json!({"world_index": wi}));
                    continue;
                }
            }
            w
        } else {
            world
        };
        rep.count("worlds", 1);
        {
            let mut per_key: std::collections::HashMap<&str, usize> = Default::default();
            for e in world.sys.entries.iter().filter(|e| e.indexed()) {
                *per_key.entry(e.key.as_str()).or_default() += 1;
            }
            if per_key.values().any(|n| *n == 127) {
                rep.count("worlds_with_a_key_of_exactly_127_entries", 1);
            }
        }
        rep.max("max_layers", 1 + world.users.len() as u64);
        if world.users.len() >= 15 {
            rep.violation("lookup_mismatch", "from_cfg_storage", "a stack of 15 user dictionaries was loaded: the 15th would get dictionary number 15, which marks out-of-vocabulary words", "", json!({"world_index": wi, "layers": world.users.len()}));
            continue;
        }
        let (model, maxlen) = index_model(&world);
        rep.max("max_indexed_keys", model.len() as u64);
        let keys = world.keys();
        let lex = world.dict.lexicon();
        let oob_before = sudachi::verif::counters();
        let n_texts = if ctx.stage == "miri" { 4 } else if size_class >= 2 { 60 } else { 20 };
        for ti in 0..n_texts {
            let text = match rng.below(6) {
                0 => rng.pick(&keys).clone(),
                // a NUL strictly inside an occurrence of a key (between two of its characters, or inside a longer key
                // that extends a shorter one): nothing beyond the NUL may match
                5 => {
                    let k: Vec<char> = rng.pick(&keys).chars().collect();
                    let at = if k.len() > 1 { 1 + rng.below(k.len() - 1) } else { k.len() };
                    let mut t: String = k[..at].iter().collect();
                    t.push('\u{0}');
                    t.extend(k[at..].iter());
                    if rng.chance(1, 2) {
                        t.push_str(rng.pick(&keys[..]).as_str());
                    }
                    t
                }
                // NUL is the terminator label inside the double array
                4 => format!("{}\u{0}{}\u{0}", rng.pick(&keys), rng.pick(&keys)),
                1 => format!("{}{}", rng.pick(&keys), rng.pick(&keys)),
                _ => textgen::text_from_keys(&mut rng, &keys, 6),
            };
            let bytes = text.as_bytes();
            for off in 0..=bytes.len() {
                rep.eval();
                let got = guard(|| {
                    let mut v: Vec<(u8, u32, usize)> = lex.lookup(bytes, off).map(|e| (e.word_id.dic(), e.word_id.word(), e.end)).collect();
                    v.sort();
                    v
                });
                let scenario = || json!({"world_index": wi, "text_index": ti, "text": text, "offset": off, "world": world.describe(size_class < 2)});
                let got = match got {
                    Ok(g) => g,
                    Err(p) => {
                        rep.violation("lookup_panic", &p.site, &p.msg, "", scenario());
                        continue;
                    }
                };
                let mut exp: Vec<(u8, u32, usize)> = vec![];
                for l in 1..=maxlen.min(bytes.len() - off) {
                    if let Some(rows) = model.get(&bytes[off..off + l]) {
                        for (d, r) in rows {
                            exp.push((*d, *r, off + l));
                        }
                    }
                }
                exp.sort();
                if !exp.is_empty() {
                    rep.count("lookups_with_matches", 1);
                    rep.count("entries_matched", exp.len() as u64);
                    rep.nontrivial(fnv(format!("{}|{}|{}", wi, text, off).as_bytes()));
                }
                if got != exp {
                    let missing: Vec<_> = exp.iter().filter(|x| !got.contains(x)).take(3).collect();
                    let extra: Vec<_> = got.iter().filter(|x| !exp.contains(x)).take(3).collect();
                    rep.violation("lookup_mismatch", "LexiconSet::lookup",
                        &format!("expected {} entries, got {}; missing (dic,row,end) {:?}; unexpected {:?}", exp.len(), got.len(), missing, extra), "", scenario());
                }
            }
            // exact-surface lookup
            if ti % 4 == 0 {
                let q = if rng.chance(2, 3) { rng.pick(&keys).clone() } else { text.clone() };
                if q.is_empty() || q.len() > 1000 {
                    continue;
                }
                let mut list = MorphemeList::empty(&world.dict);
                let r = guard(|| {
                    let n = list.lookup(&q, InfoSubset::all()).map_err(|e| format!("{:?}", e))?;
                    let mut v: Vec<(u8, u32)> = list.iter().map(|m| (m.word_id().dic(), m.word_id().word())).collect();
                    v.sort();
                    // the dictionary number as the morpheme reports it
                    for m in list.iter() {
                        if m.is_oov() || m.dictionary_id() != m.word_id().dic() as i32 {
                            return Err(format!("entry {:#x} found by exact lookup reports dictionary {} / is_oov {}", m.word_id().as_raw(), m.dictionary_id(), m.is_oov()));
                        }
                    }
                    Ok::<_, String>((n, v))
                });
                let mut exp: Vec<(u8, u32)> = model.get(q.as_bytes()).cloned().unwrap_or_default();
                exp.sort();
                let scenario = || json!({"world_index": wi, "query": q, "world": world.describe(size_class < 2)});
                match r {
                    Err(p) => rep.violation("lookup_panic", &p.site, &p.msg, "", scenario()),
                    Ok(Err(e)) if e.starts_with("entry ") => rep.violation("exact_lookup_mismatch", "Morpheme::dictionary_id", &e, "", scenario()),
                    Ok(Err(e)) => rep.notes.push(format!("exact lookup error: {}", e)),
                    Ok(Ok((n, got))) => {
                        rep.count("exact_lookups", 1);
                        if got != exp || n != exp.len() {
                            rep.violation("exact_lookup_mismatch", "MorphemeList::lookup", &format!("query {:?}: expected {:?}, got {:?} (count {})", q, exp, got, n), "", scenario());
                        }
                    }
                }
            }
        }
        if size_class == 4 {
            // every key of the huge dictionary, looked up at offset 0 of itself
            let units = trie_units(&world.sys_bytes);
            rep.max("max_trie_units", units);
            for (key, rows) in model.iter() {
                rep.eval();
                let got = guard(|| {
                    let mut v: Vec<(u8, u32, usize)> = lex.lookup(key, 0).filter(|e| e.end == key.len()).map(|e| (e.word_id.dic(), e.word_id.word(), e.end)).collect();
                    v.sort();
                    v
                });
                let mut exp: Vec<(u8, u32, usize)> = rows.iter().map(|(d, r)| (*d, *r, key.len())).collect();
                exp.sort();
                match got {
                    Ok(g) if g == exp => rep.count("huge_dictionary_keys_checked", 1),
                    Ok(g) => {
                        rep.violation("lookup_mismatch", "LexiconSet::lookup", &format!("dictionary with {} trie units: key {:?} expected {:?}, got {:?}", units, String::from_utf8_lossy(key), exp, g), "",
                            json!({"world_index": wi, "key": String::from_utf8_lossy(key), "world": world.describe(false)}));
                        break;
                    }
                    Err(p) => {
                        rep.violation("lookup_panic", &p.site, &p.msg, "", json!({"world_index": wi, "key": String::from_utf8_lossy(key), "world": world.describe(false)}));
                        break;
                    }
                }
            }
        }
        // a text of more than 65,535 bytes (lookup itself has no length limit): matches near its end carry their true end offset
        if !small && wi % 8 == 4 {
            let filler = "ん".repeat(22_000);
            let k1 = rng.pick(&keys[..]).clone();
            let k2 = rng.pick(&keys[..]).clone();
            let long = format!("{}{}{}", filler, k1, k2);
            let bytes = long.as_bytes();
            for off in [filler.len(), filler.len() + k1.len()] {
                rep.eval();
                let got = guard(|| {
                    let mut v: Vec<(u8, u32, usize)> = lex.lookup(bytes, off).map(|e| (e.word_id.dic(), e.word_id.word(), e.end)).collect();
                    v.sort();
                    v
                });
                let mut exp: Vec<(u8, u32, usize)> = vec![];
                for l in 1..=maxlen.min(bytes.len() - off) {
                    if let Some(rows) = model.get(&bytes[off..off + l]) {
                        for (d, r) in rows {
                            exp.push((*d, *r, off + l));
                        }
                    }
                }
                exp.sort();
                rep.count("lookups_beyond_65535_bytes", 1);
                match got {
                    Ok(g) if g == exp => {}
                    Ok(g) => rep.violation("lookup_mismatch", "LexiconSet::lookup", &format!("text of {} bytes, offset {}: expected {:?}, got {:?}", bytes.len(), off, exp.iter().take(3).collect::<Vec<_>>(), g.iter().take(3).collect::<Vec<_>>()), "",
                        json!({"world_index": wi, "text": format!("'ん' x 22000 + {:?} + {:?}", k1, k2), "offset": off, "world": world.describe(size_class < 2)})),
                    Err(p) => rep.violation("lookup_panic", &p.site, &p.msg, "", json!({"world_index": wi, "offset": off})),
                }
            }
        }
        // the system lexicon compiled from two files (read_lexicon with paths, one call per file): the same dictionary bytes
        if !small && size_class < 2 && wi % 8 == 6 {
            use sudachi::dic::build::DictBuilder;
            let rows: Vec<String> = world.sys.entries.iter().map(|e| world.sys.row_csv(e, None)).collect();
            if rows.len() >= 2 {
                let cut = 1 + rng.below(rows.len() - 1);
                world.res.write("lex_b.csv", &(rows[..cut].join("\n") + "\n"));
                world.res.write("lex_a.csv", &(rows[cut..].join("\n") + "\n"));
                world.res.write("matrix.def", &world.matrix_text);
                let r = guard(|| -> Result<Vec<u8>, String> {
                    let mut b = DictBuilder::new_system();
                    b.set_compile_time(std::time::UNIX_EPOCH + std::time::Duration::from_secs(env::FIXED_TIME_SECS));
                    b.set_description(env::DESCRIPTION);
                    b.read_conn(world.res.path.join("matrix.def").as_path()).map_err(|e| format!("{:?}", e))?;
                    b.read_lexicon(world.res.path.join("lex_b.csv").as_path()).map_err(|e| format!("{:?}", e))?;
                    b.read_lexicon(world.res.path.join("lex_a.csv").as_path()).map_err(|e| format!("{:?}", e))?;
                    b.resolve().map_err(|e| format!("{:?}", e))?;
                    let mut out = Vec::new();
                    b.compile(&mut out).map_err(|e| format!("{:?}", e))?;
                    Ok(out)
                });
                rep.eval();
                match r {
                    Ok(Ok(b)) => {
                        rep.count("compilations_from_two_files_compared", 1);
                        if b != world.sys_bytes {
                            rep.violation("lookup_mismatch", "DictBuilder::read_lexicon(path)", &format!("the same rows read from two files give a dictionary of {} bytes that differs from the one compiled from memory ({} bytes): keys of the first file are not indexed as declared", b.len(), world.sys_bytes.len()), "",
                                json!({"world_index": wi, "rows_in_first_file": cut, "world": world.describe(true)}));
                        }
                    }
                    Ok(Err(e)) => rep.violation("lookup_mismatch", "DictBuilder::read_lexicon(path)", &format!("the rows compile from memory but not from two files: {}", clip(&e, 200)), "", json!({"world_index": wi})),
                    Err(p) => rep.violation("lookup_panic", &p.site, &p.msg, "", json!({"world_index": wi, "stage": "compile from files"})),
                }
            }
        }
        // the same stack loaded from files, the user dictionaries added one by one with ConfigBuilder::user_dict():
        // every indexed key of every layer is found under that layer's number
        if !small && size_class < 2 && world.users.len() >= 2 && world.users.len() <= 6 && wi % 2 == 1 {
            use sudachi::config::ConfigBuilder;
            use sudachi::dic::dictionary::JapaneseDictionary;
            world.res.write_bytes("system.dic", &world.sys_bytes);
            let mut cfgj = world.cfg_json.clone();
            cfgj["systemDict"] = json!(world.res.path.join("system.dic").to_string_lossy().to_string());
            let loaded = guard(|| {
                let mut b = ConfigBuilder::from_bytes(&serde_json::to_vec(&cfgj).unwrap()).map_err(|e| format!("{:?}", e))?.resource_path(world.res.path.clone());
                for (i, u) in world.user_bytes.iter().enumerate() {
                    let name = format!("user{}.dic", i);
                    world.res.write_bytes(&name, u);
                    b = b.user_dict(world.res.path.join(&name));
                }
                JapaneseDictionary::from_cfg(&b.build()).map_err(|e| format!("{:?}", e))
            });
            let scen = || json!({"world_index": wi, "loaded": "from files, user dictionaries added with ConfigBuilder::user_dict()", "world": world.describe(true)});
            match loaded {
                Ok(Ok(d2)) => {
                    rep.count("stacks_loaded_from_files", 1);
                    let lex2 = d2.lexicon();
                    'outer: for (key, rows) in model.iter() {
                        rep.eval();
                        let got = guard(|| {
                            let mut v: Vec<(u8, u32)> = lex2.lookup(key, 0).filter(|e| e.end == key.len()).map(|e| (e.word_id.dic(), e.word_id.word())).collect();
                            v.sort();
                            v
                        });
                        let mut exp = rows.clone();
                        exp.sort();
                        match got {
                            Ok(g) if g == exp => rep.count("file_based_keys_checked", 1),
                            Ok(g) => {
                                rep.violation("lookup_mismatch", "LexiconSet::lookup", &format!("stack loaded from files: key {:?} expected {:?}, got {:?}", String::from_utf8_lossy(key), exp, g), "", scen());
                                break 'outer;
                            }
                            Err(p) => {
                                rep.violation("lookup_panic", &p.site, &p.msg, "", scen());
                                break 'outer;
                            }
                        }
                    }
                }
                Ok(Err(e)) => rep.violation("lookup_mismatch", "JapaneseDictionary::from_cfg", &format!("the stack loads from memory but not from files: {}", clip(&e, 200)), "", scen()),
                Err(p) => rep.violation("lookup_panic", &p.site, &p.msg, "", scen()),
            }
        }
        let oob_after = sudachi::verif::counters();
        rep.count("trie_accesses_seen_by_hook", oob_after[2] - oob_before[2]);
        rep.count("word_id_table_accesses_seen_by_hook", oob_after[4] - oob_before[4]);
        if oob_after[3] != oob_before[3] || oob_after[5] != oob_before[5] {
            let what = sudachi::verif::take_first_oob().unwrap_or_default();
            rep.violation("oob_access", "hook H3", &what, "", json!({"world_index": wi, "world": world.describe(size_class < 2)}));
        }
        if rep.want_sample() && world.users.len() >= 2 {
            rep.sample(json!({"layers": 1 + world.users.len(), "indexed_keys": model.len(), "example_keys": keys.iter().take(8).collect::<Vec<_>>()}));
        }
    }
}

/// number of units of the system dictionary's double array, read from the binary image
fn trie_units(sys: &[u8]) -> u64 {
    use sudachi::dic::grammar::Grammar;
    use sudachi::dic::header::Header;
    let off = Header::STORAGE_SIZE;
    match Grammar::parse(sys, off) {
        Ok(g) => {
            let lex = off + g.storage_size;
            if lex + 4 <= sys.len() {
                u32::from_le_bytes([sys[lex], sys[lex + 1], sys[lex + 2], sys[lex + 3]]) as u64
            } else {
                0
            }
        }
        Err(_) => 0,
    }
}
