#!/bin/bash
# runs every seeded change against the quick check of its property; output: work/sweep.log
cd /verif
: > work/sweep.log
for d in seeded/*/; do
  n=$(basename $d); prop=${n%-*}
  if ! git -C /repo apply --check /verif/$d/patch.diff 2>/dev/null; then echo "$n APPLY-FAIL" >> work/sweep.log; continue; fi
  out=$(lib/mutest.sh /verif/$d/patch.diff $prop quick 2>&1)
  rc=$(echo "$out" | grep -o "exit=[0-9]*" | tail -1)
  first=$(echo "$out" | grep -m1 "kind=" | cut -c1-200)
  echo "$n $rc $first" >> work/sweep.log
done
echo DONE >> work/sweep.log
