#!/bin/bash
# runs seeded changes (optionally only those matching a glob) against the quick check of their property; output: work/sweep.log (appended/updated)
cd /verif
pat="${1:-*}"
touch work/sweep.log
for d in seeded/$pat/; do
  n=$(basename $d); prop=${n%-*}
  [ -f $d/patch.diff ] || continue
  grep -v "^$n " work/sweep.log > work/sweep.tmp; mv work/sweep.tmp work/sweep.log
  if ! git -C /repo apply --check /verif/$d/patch.diff 2>/dev/null; then echo "$n APPLY-FAIL" >> work/sweep.log; continue; fi
  out=$(lib/mutest.sh /verif/$d/patch.diff $prop quick 2>&1)
  rc=$(echo "$out" | grep -o "exit=[0-9]*" | tail -1)
  first=$(echo "$out" | grep -m1 "kind=" | cut -c1-160 | iconv -c -f utf-8 -t utf-8)
  echo "$n $rc $first" >> work/sweep.log
done
echo "DONE $pat" >> work/sweep.log
