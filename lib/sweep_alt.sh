#!/bin/bash
# like sweep_seeded.sh but on the scratch worktree /tmp/mutrepo (does not touch /repo); output: work/sweep-alt.log
cd /verif
pat="${1:-*}"
touch work/sweep-alt.log
for d in seeded/$pat/; do
  n=$(basename $d); prop=${n%-*}
  [ -f $d/patch.diff ] || continue
  grep -v "^$n " work/sweep-alt.log > work/sweep-alt.tmp; mv work/sweep-alt.tmp work/sweep-alt.log
  out=$(lib/mutest_alt.sh /verif/$d/patch.diff $prop quick 2>&1)
  rc=$(echo "$out" | grep -o "exit=[0-9]*" | tail -1)
  first=$(echo "$out" | grep -m1 "kind=\|does not apply" | cut -c1-160 | iconv -c -f utf-8 -t utf-8)
  echo "$n $rc $first" >> work/sweep-alt.log
done
echo "DONE $pat" >> work/sweep-alt.log
