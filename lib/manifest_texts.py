NOTES = ("Technique family: runtime monitoring and sanitizers. Every check runs the real code built from /repo's "
         "working tree under seeded hostile workloads; verdicts are three-valued (exit 0 held / 1 violation / 2 inconclusive). "
         "See DESIGN.md.")

NOT_APPLICABLE = {}

CHECKS = {
    "C01": {
        "level_text": "Exploration: seeded hostile workloads (random dictionaries, plugin stacks, texts) drive the public tokenizer API; a runtime oracle applies the literal partition / surface clauses of the property to every result list and every on-demand split. Assurance: held on the counted executions only.",
        "design_ref": "DESIGN.md 6/C01",
        "level_note": "Trusts the harness's own comparison code and Rust's str slicing; covers only generated worlds/texts (counts in evidence).",
        "technique": "runtime oracle over public-API results (partition + surface comparison) under seeded workloads",
    },
}
