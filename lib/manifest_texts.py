NOTES = ("Technique family: runtime monitoring and sanitizers. Every check runs the real code built from /repo's "
         "working tree under seeded hostile workloads; verdicts are three-valued (exit 0 held / 1 violation / 2 inconclusive). "
         "See DESIGN.md.")

NOT_APPLICABLE = {}

CHECKS = {
    "C01": {
        "level_text": "Exploration: seeded hostile workloads (random dictionaries, plugin stacks, texts) drive the public tokenizer API; a runtime oracle applies the literal partition / surface clauses of the property to every result list and every on-demand split. Assurance: held on the counted executions only.",
        "design_ref": "DESIGN.md 6/C01",
        "level_note": "Trusts the harness's own comparison code and Rust's str slicing; covers only generated worlds/texts (counts in evidence).",
        "technique": "runtime oracle over public-API results (partition + surface comparison) under seeded workloads",
    },
    "C02": {
        "level_text": "Exploration: for every generated (dictionary, text) the whole Viterbi lattice is observed through a read-only hook and re-solved by an independent i64 DP with the harness's own copy of the connection matrix; reported node totals, EOS cost, back-pointer chain and per-morpheme cumulative costs must equal the recomputation, and every CSV row that matches must be a candidate. Held on the counted lattices only.",
        "design_ref": "DESIGN.md 6/C02",
        "level_note": "Trusts hook H4 to copy lattice state faithfully (observation only) and the harness DP; texts <=200 chars so i32 sums cannot overflow (that is C03's D10).",
        "technique": "lattice hook + independent shortest-path recomputation (reference-model monitor)",
    },
    "C17": {
        "level_text": "Exploration over definition files, exhaustive over code points: every generated char.def that loads is queried for all 1,112,064 scalar values and compared with the union-of-covering-lines model; line order is permuted. Held for the counted definitions.",
        "design_ref": "DESIGN.md 6/C17",
        "level_note": "The outer quantifier (definition files) is sampled; the inner one (code points) is complete per definition. Trusts the 10-line reference model.",
        "technique": "reference-model monitor, exhaustive code-point sweep per generated definition",
    },
    "C08": {
        "level_text": "Exploration: random multi-batch edit histories are applied to the real InputBuffer and mirrored by a provenance-tracking model; the offset map is checked at every character boundary after every batch and the code-point tables after build(); tokenization-level begin_c/end_c are recomputed from the original string. Held on the counted histories.",
        "design_ref": "DESIGN.md 6/C08",
        "level_note": "Trusts the provenance model (30 lines) and Rust's char_indices; only non-empty ordered non-overlapping edits (the statement's domain).",
        "technique": "history + executable model (provenance tracking) monitor on InputBuffer; recomputation oracle on tokenizer results",
    },
    "C04": {
        "level_text": "Exploration: every byte offset of generated texts is looked up in generated dictionary stacks and the result multiset is compared with a scan of the source CSV; bounds monitors at the trie / word-id-table hooks watch every access. Held on the counted lookups.",
        "design_ref": "DESIGN.md 6/C04",
        "level_note": "Trusts the HashMap-of-keys reference scan; dictionary sizes and layer counts are those in the evidence counters.",
        "technique": "reference-model monitor (naive scan of source rows) + bounds monitors at hooks H3",
    },
    "C05": {
        "level_text": "Exploration: generated CSV + matrix are compiled and loaded by the real code; every field of every entry and every matrix cell is read back through the public API and compared with the source model; double compilation is compared byte-wise; loads from 8 base alignments are compared observation by observation. Held on the counted dictionaries.",
        "design_ref": "DESIGN.md 6/C05",
        "level_note": "Trusts the source model's resolution rule for inline references (own entries first, then system; key+POS+reading) and the CSV renderer.",
        "technique": "reference-model monitor over compile->load round trips; differential monitor across alignments and repeated compilation",
    },
    "C03": {
        "level_text": "Exploration with sanitizers: hostile inputs and limit-length inputs are run through reused tokenizers in a debug-assertion/overflow-check build and a release build, with a panic hook, exit-status monitor, bounds monitors at the matrix/trie/table hooks, an expected-outcome oracle for the two length limits and a partition check of every Ok result; valgrind memcheck (quick) and ASan + Miri (thorough) watch the same workload on reduced sets.",
        "design_ref": "DESIGN.md 6/C03",
        "level_note": "Red-zone tools cannot see intra-allocation overruns (matrix/trie live inside the dictionary buffer) - hooks and debug assertions cover those; odd-address loads give real allocation boundaries. Known findings D9, D10, D19 are reported as KNOWN-FINDING.",
        "technique": "panic/exit-status monitors + bounds hooks + expected-outcome oracle under hostile workloads; valgrind, ASan, Miri stages",
    },
    "C07": {
        "level_text": "Exploration with an exhaustive inner sweep: all scalar values alone, and seeded rewrite tables x strings, are pushed through the real input-text plugins and compared with an independent leftmost-longest / per-character reference; a relational monitor compares the optimised and the general code path on the same span. Held on the counted inputs.",
        "design_ref": "DESIGN.md 6/C07",
        "level_note": "Trusts the reference normaliser (harness/src/normref.rs) and the Unicode tables of std / unicode-normalization.",
        "technique": "reference-model monitor + metamorphic (fast-path vs general-path) monitor; exhaustive code-point sweep",
    },
    "C16": {
        "level_text": "Exploration: generated texts are split by the real SentenceSplitter under varying window limits with and without the dictionary checker; five oracles (partition/termination, terminator at every break, bracket level, dictionary-word veto, conservative converse) judge every result. Held on the counted texts.",
        "design_ref": "DESIGN.md 6/C16",
        "level_note": "P5 is deliberately conservative; D12/D13 are known findings reported through labelled probes.",
        "technique": "runtime oracles over SentenceSplitter output (invariant + conservative converse) under seeded workloads",
    },
    "C15": {
        "level_text": "Exploration with an oracle by construction: numerals are generated from a value structure that also yields the expected decimal rendering (no code shared with numeric_parser), embedded in texts and analysed by the real tokenizer + JoinNumericPlugin; mutated numerals are re-evaluated token by token with an independent evaluator. Held on the counted numerals.",
        "design_ref": "DESIGN.md 6/C15",
        "level_note": "Trusts the generator/evaluator pair (cross-checked against each other on every well-formed numeral at run time).",
        "technique": "oracle-by-construction monitor (generate from value, compare rendering) + independent evaluator for near-miss inputs",
    },
    "C14": {
        "level_text": "Exploration, differential: the same compiled dictionary is loaded with and without path-rewrite plugins and every analysis is compared token by token (boundaries subset, unmerged tokens identical in all fields, merged tokens = union + concatenated surface + prescribed POS). Held on the counted analyses.",
        "design_ref": "DESIGN.md 6/C14",
        "level_note": "The plugin-free analysis of the same tree is the reference; trusts the token-matching walker.",
        "technique": "differential monitor (with vs without path-rewrite plugins) over seeded workloads",
    },
    "C13": {
        "level_text": "Exploration with a reference model of the whole OOV machinery (character classes, word-start permission, left-to-right class runs, MeCab / regex / simple providers, created-words bitmap, fallback) built from the generated definition files only; compared with the real InputBuffer tables and with the OOV nodes of the real lattice at every reachable position. Held on the counted positions.",
        "design_ref": "DESIGN.md 6/C13",
        "level_note": "Trusts the reference model (harness/src/mon_c13.rs) and hook H4; path-rewrite plugins are off in these worlds.",
        "technique": "reference-model monitor over lattice candidates (hook H4) and InputBuffer tables",
    },
    "C11": {
        "level_text": "Exploration with an exhaustive inner sweep: all 1,024 subsets for every word of every generated dictionary stack are loaded and compared, field by field through the public accessors, with the full load of the same word; tokenizations under random subsets are compared with full-field tokenizations. Held on the counted words / analyses.",
        "design_ref": "DESIGN.md 6/C11",
        "level_note": "The full-field load of the same tree is the reference (differential); its own correctness is C05's business.",
        "technique": "differential monitor (subset load vs full load), exhaustive over the 2^10 subsets per word",
    },
    "C10": {
        "level_text": "Exploration, history + executable model: random operation histories run on one long-lived tokenizer/list pair; after every operation a probe text is analysed by it and by a fresh tokenizer with the same mode and field request, and the two results are compared on boundaries, word ids and requested fields. Held on the counted histories.",
        "design_ref": "DESIGN.md 6/C10",
        "level_note": "The model is the same code in a fresh state; a defect that is independent of history is invisible here (other properties cover those).",
        "technique": "history monitor with a fresh-instance reference model (differential)",
    },
    "C09": {
        "level_text": "Exploration: each text is analysed in modes C, A and B and through the on-demand split API; the source model of the generated dictionaries says which unit ids every C token must split into, and ranges are checked on normalised-text and original-text positions. Held on the counted tokens.",
        "design_ref": "DESIGN.md 6/C09",
        "level_note": "Only dictionaries that satisfy the statement's precondition (units concatenate to the key) are generated here; inconsistent ones are C01/C03 territory (known finding D9).",
        "technique": "reference-model monitor (declared units from the source CSV) + differential monitor (split API vs direct mode A/B)",
    },
    "C12": {
        "level_text": "Exploration: stacks of 0-15 user dictionaries (compiled like the CLI does) are loaded over one system dictionary together with POS-registering OOV plugins; every row of every layer is read back against the source model, system rows are compared with a zero-layer load, morpheme-level ids / POS are checked on analyses, and the 15th layer must be refused with an error. Held on the counted stacks.",
        "design_ref": "DESIGN.md 6/C12",
        "level_note": "Trusts the per-layer source model; layer counts and plugin-POS counts are in the evidence counters.",
        "technique": "reference-model monitor over layered loads + differential monitor (k layers vs 0 layers)",
    },
    "C20": {
        "level_text": "Exploration by enumeration of the parameter grid named in the statement (boundary values of every id / cost / POS setting for every provider type and for inhibited pairs, on square and non-square matrices); every configuration is loaded by the real code under a panic monitor, the outcome is compared with the specification, accepted configurations are exercised under the matrix bounds hook in a debug-assertion and a release build.",
        "design_ref": "DESIGN.md 6/C20",
        "level_note": "The grid is complete for the listed values; the outer quantifier (matrix sizes, other JSON shapes) is a finite sample. D1 is a known finding (the strict comparison breaks three existing unit tests that use an empty grammar); D3 was repaired.",
        "technique": "enumerated configuration grid with expected-outcome oracle + bounds hook H2 + panic/exit-status monitor",
    },
    "C06": {
        "level_text": "Fault enumeration for the sink clause: every failure offset of the output writer (plain error and short-write-then-error) is enumerated for small generated dictionaries and compile must report an error each time. Exploration for the input clause: structure-aware mutations and random bytes are compiled under panic / exit-status monitors in two builds, invalid inputs named by the statement must be rejected, and every accepted dictionary is loaded and analysed under bounds hooks.",
        "design_ref": "DESIGN.md 6/C06",
        "level_note": "Enumeration is complete per dictionary <= 4 KiB; the set of dictionaries and of mutations is sampled. Known findings D9, D18, D24 via probes.",
        "technique": "fault injection at every sink offset + mutation workload under panic/exit-status monitors + load-and-analyse arbiter",
    },
    "C18": {
        "level_text": "Exploration with race detectors: many threads with private tokenizers hammer one shared dictionary (every plugin type, user dictionaries) from a barrier start; results are compared with a single-threaded baseline, the dictionary is digested before and after, and the same workload runs under ThreadSanitizer (quick) and Miri with several scheduler seeds (thorough); Python threads over one Dictionary are checked for result equality and interpreter survival.",
        "design_ref": "DESIGN.md 6/C18",
        "level_note": "Race detectors see only executed schedules; CPython is uninstrumented, so the Python half has no race detector. Interleaving evidence (overlapping operation pairs, order signatures) is in the evidence file.",
        "technique": "stress workload + ThreadSanitizer + Miri data-race detection + result/digest differential monitors",
    },
    "C19": {
        "level_text": "Exploration, differential across language boundaries: the sudachipy extension and the sudachi CLI are built from the working tree and driven as child processes on generated scenarios; every reported field / output line is compared with what the core library computes in-process for the same input, API histories are followed by probes, exit statuses are the crash monitor.",
        "design_ref": "DESIGN.md 6/C19",
        "level_note": "The in-process library result is the reference. Python exceptions (incl. PyO3 PanicException) are not crashes.",
        "technique": "cross-process differential monitor (Python extension and CLI vs in-process library) + exit-status crash monitor",
    },
}
