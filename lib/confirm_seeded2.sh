#!/bin/bash
# wave 3: usage: confirm_seeded2.sh Cxx mN   (scratch worktree /tmp/wt2/Cxx)
id="$1"; m="$2"; base=${WTBASE:-/tmp/wt2}; wt=$base/$id; out=$wt/_out/$m
cd "$wt" || exit 9
git checkout -q -- . ; rm -f sudachi/tests/demo.rs sudachi/tests/c*_demo.rs
git apply "$out/patch.diff" || { echo "$id $m: PATCH-FAIL"; exit 1; }
suite=$(cargo test --workspace --no-fail-fast --offline 2>&1 | grep -E "^test result" | awk '{p+=$4; f+=$6} END {print p"/"f}')
if [ -f "$out/demo.rs" ]; then
  cp "$out/demo.rs" sudachi/tests/demo.rs
  cargo test --offline -p sudachi --test demo >$base/$id-$m-with.log 2>&1; with=$?
  git checkout -q -- .
  cargo test --offline -p sudachi --test demo >$base/$id-$m-without.log 2>&1; without=$?
  rm -f sudachi/tests/demo.rs
elif [ -f "$out/run.sh" ]; then
  bash "$out/run.sh" >$base/$id-$m-with.log 2>&1; with=$?
  git checkout -q -- .
  bash "$out/run.sh" >$base/$id-$m-without.log 2>&1; without=$?
else
  with=NA; without=NA; git checkout -q -- .
fi
echo "$id $m: suite(pass/fail)=$suite demo_with_mutation_rc=$with demo_without_rc=$without"
