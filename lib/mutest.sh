#!/bin/bash
# usage: lib/mutest.sh <patch.diff> <Cxx> [quick|thorough]  — applies a seeded change to /repo, runs the check, reverts
set -u
patch="$1"; prop="$2"; tier="${3:-quick}"
cd /repo || exit 9
if [ -n "$(git status --porcelain --untracked-files=no)" ]; then echo "repo dirty"; exit 9; fi
git apply "$patch" || { echo "patch does not apply"; exit 9; }
cp /verif/evidence/$prop.json /verif/work/evidence-$prop.bak 2>/dev/null
cd /verif && ./check "$prop" "$tier" > /verif/work/mutest.out 2>&1; rc=$?
cp /verif/work/evidence-$prop.bak /verif/evidence/$prop.json 2>/dev/null; rm -f /verif/replays/$prop-*.json
git -C /repo checkout -- . 
grep -E "^(VIOLATION|KNOWN|INCONCLUSIVE|C[0-9]+ )|kind=" /verif/work/mutest.out | head -12
echo "exit=$rc"
