#!/usr/bin/env python3
"""Ingests one wave of sub-agent output:  wave_ingest.py <worktree base> <confirm log number> ["C01 C02 ..."]

<base>/<Cxx>/_out/m1.. hold patch.diff, a demonstration and meta.json; <base>/confirm-*.log hold lines
"<Cxx> <mN>: suite(pass/fail)=... demo_with_mutation_rc=... demo_without_rc=..." (lib/confirm_seeded2.sh, or by hand
for demonstrations that are scripts). Copies confirmed changes to /verif/seeded/<Cxx>-m<next>/, writes
seeded/_confirm/confirm<N>.log and work/wave_ids.txt, and reports patches that do not apply to /repo's HEAD."""
import glob
import os
import re
import shutil
import subprocess
import sys

base, num = sys.argv[1], sys.argv[2]
only = sys.argv[3].split() if len(sys.argv) > 3 else None
lines, ids, problems = [], [], []
confirm = {}
for lf in sorted(glob.glob(base + "/confirm-*.log")):
    for l in open(lf, errors="replace"):
        m = re.match(r"(C\d+) (m\d+): suite\(pass/fail\)=(\S+) demo_with_mutation_rc=(\S+) demo_without_rc=(\S+)", l)
        if m:
            confirm.setdefault((m.group(1), m.group(2)), l)
for p in ["C%02d" % i for i in range(1, 21)]:
    if only and p not in only:
        continue
    existing = len(glob.glob("/verif/seeded/%s-m*" % p))
    k = 0
    for m in sorted(os.listdir(base + "/" + p + "/_out")) if os.path.isdir(base + "/" + p + "/_out") else []:
        src = "%s/%s/_out/%s" % (base, p, m)
        if not re.match(r"m\d+$", m) or not os.path.exists(src + "/patch.diff"):
            continue
        c = confirm.get((p, m))
        ok = False
        if c:
            mm = re.search(r"suite\(pass/fail\)=(\d+)/(\d+) demo_with_mutation_rc=(\S+) demo_without_rc=(\S+)", c)
            ok = bool(mm) and mm.group(2) == "0" and int(mm.group(1)) >= 254 and mm.group(3) not in ("0", "NA") and mm.group(4) == "0"
        if not ok:
            problems.append("%s %s: not confirmed (%s)" % (p, m, (c or "no confirmation line").strip()))
            continue
        k += 1
        new = "m%d" % (existing + k)
        dst = "/verif/seeded/%s-%s" % (p, new)
        os.makedirs(dst)
        for f in os.listdir(src):
            if f.endswith(".log") or os.path.isdir(src + "/" + f):
                continue
            shutil.copy(src + "/" + f, dst + "/" + ("agent_meta.json" if f == "meta.json" else f))
        lines.append(c.replace("%s %s:" % (p, m), "%s %s:" % (p, new)))
        ids.append("%s-%s" % (p, new))
        r = subprocess.run(["git", "-C", "/repo", "apply", "--check", dst + "/patch.diff"], capture_output=True, text=True)
        if r.returncode != 0:
            problems.append("%s-%s: patch does not apply to /repo HEAD: %s" % (p, new, r.stderr.strip()[:120]))
open("/verif/seeded/_confirm/confirm%s.log" % num, "w").write("".join(lines))
open("/verif/work/wave_ids.txt", "w").write(" ".join(ids))
print("ingested", len(ids))
for x in problems:
    print("PROBLEM", x)
