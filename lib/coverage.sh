#!/bin/bash
# Development aid (not a registered check): which functions of crate sudachi does the quick workload of every monitor
# never execute?  Builds the harness with -Cinstrument-coverage into /tmp/vcov (removed at the end), runs the first NSH (default 1) shards of 16
# of every property's main stage in parallel, writes work/coverage-functions.txt (functions with zero executions) and
# work/coverage-files.txt (per-file line coverage).
set -u
cd "$(dirname "$0")/.."
COV=/tmp/vcov
SYS=$(rustc +nightly --print sysroot)
BIN=$SYS/lib/rustlib/x86_64-unknown-linux-gnu/bin
mkdir -p $COV/prof $COV/out work/scratch
(cd harness && LLVM_PROFILE_FILE="$COV/build-%p.profraw" CARGO_NET_OFFLINE=true RUSTFLAGS="-Cinstrument-coverage" cargo +nightly build --offline --profile mon --target-dir $COV/target 2>&1 | tail -2)
VH=$COV/target/mon/vh
for p in ${1:-C01 C02 C03 C04 C05 C06 C07 C08 C09 C10 C11 C12 C13 C14 C15 C16 C17 C18 C19 C20}; do
  for sh in $(seq 0 $((${NSH:-1} - 1))); do
  LLVM_PROFILE_FILE="$COV/prof/$p-$sh-%p.profraw" VH_REPO=/repo VH_SCRATCH=/verif/work/scratch VH_CLI=/verif/work/target-repo/release/sudachi \
    VH_PYPKG=/verif/work/pypkg VH_PYDRIVER=/verif/py/drive.py \
    timeout 900 $VH $p --tier quick --seed 1 --shard $sh --nshards 16 --stage main --out $COV/out/$p-$sh.json --budget 60 > $COV/out/$p-$sh.log 2>&1 &
  done
  wait
  echo "$p done"
done
$BIN/llvm-profdata merge -sparse $COV/prof/*.profraw -o $COV/all.profdata
$BIN/llvm-cov report $VH -instr-profile=$COV/all.profdata --ignore-filename-regex='(registry|rustc|harness/src)' > work/coverage-files.txt 2>/dev/null
$BIN/llvm-cov report $VH -instr-profile=$COV/all.profdata --show-functions --ignore-filename-regex='(registry|rustc|harness/src)' $(find /repo/sudachi/src -name '*.rs') 2>/dev/null \
  | rustfilt 2>/dev/null > $COV/funcs.txt || true
[ -s $COV/funcs.txt ] || $BIN/llvm-cov report $VH -instr-profile=$COV/all.profdata --show-functions $(find /repo/sudachi/src -name '*.rs') > $COV/funcs.txt 2>/dev/null
awk '/^File /{f=$2} /^[_a-zA-Z<]/ && $NF=="0.00%" {print f, $1}' $COV/funcs.txt > work/coverage-functions.txt
wc -l work/coverage-functions.txt
cp $COV/funcs.txt work/coverage-funcs-all.txt
$BIN/llvm-cov show $VH -instr-profile=$COV/all.profdata --ignore-filename-regex='(registry|rustc|harness/src)' $(find /repo/sudachi/src -name '*.rs') 2>/dev/null | awk '/^\/repo/{f=$0} /^ +[0-9]+\| +0\|/{print f " " $0}' > work/coverage-uncovered-lines.txt
rm -rf $COV
