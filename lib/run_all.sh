#!/bin/bash
# usage: lib/run_all.sh <quick|thorough> [seed] ["C01 C02 ..."]   — runs every (or the listed) registered check, one summary line each
tier="${1:-quick}"; seed="${2:-1}"
props="${3:-C01 C02 C03 C04 C05 C06 C07 C08 C09 C10 C11 C12 C13 C14 C15 C16 C17 C18 C19 C20}"
cd "$(dirname "$0")/.."
for p in $props; do
  t0=$(date +%s)
  VERIF_SEED=$seed ./check $p $tier > work/runall-$p.out 2>&1; rc=$?
  t1=$(date +%s)
  echo "$p $tier seed=$seed rc=$rc $((t1-t0))s $(grep -E "^C[0-9]+ (quick|thorough)" work/runall-$p.out | cut -c1-140)"
  grep -E "^(VIOLATION|INCONCLUSIVE)|kind=" work/runall-$p.out | head -6 | cut -c1-300
done
