#!/usr/bin/env python3
"""Regenerates MANIFEST.json from lib/stages.py (claimed checks) + lib/manifest_texts.py."""
import json, os, subprocess, sys
VERIF = os.path.dirname(os.path.dirname(os.path.abspath(__file__)))
sys.path.insert(0, os.path.join(VERIF, "lib"))
import stages, manifest_texts as T

props = [json.loads(l) for l in open(os.path.join(VERIF, "properties.jsonl"))]
checks, na = [], []
for p in props:
    pid = p["id"]
    if pid in stages.PLANS and pid in T.CHECKS:
        t = T.CHECKS[pid]
        plan = stages.plan(pid, "quick")
        checks.append({
            "property_id": pid,
            "quick_cmd": "./check %s quick" % pid,
            "thorough_cmd": "./check %s thorough" % pid,
            "evidence_file": "/verif/evidence/%s.json" % pid,
            "replay_cmd_template": "./check %s --replay {path}" % pid,
            "engine": "vh",
            "level_claimed": {"category": plan["level"], "text": t["level_text"], "design_ref": t["design_ref"]},
            "level_note": t["level_note"],
            "technique": t["technique"],
        })
    else:
        na.append({"property_id": pid, "reason": T.NOT_APPLICABLE.get(pid, "check not built yet in this session; the property is within reach of runtime monitoring (see DESIGN.md section 6) and will be claimed once its monitor is validated")})
hooks_commits = subprocess.run(["git", "-C", "/repo", "log", "--format=%H", "--grep=^verif hooks"], capture_output=True, text=True).stdout.split()
m = {
    "version": 1,
    "setup_cmd": "./check --setup",
    "hooks": {
        "guard": "cargo feature `verif` of crate sudachi (sudachi/Cargo.toml [features] verif = []), off by default",
        "enable": "the harness crate /verif/harness depends on sudachi by path with features=[\"verif\"]; ./check builds it with cargo --offline (profiles mon = debug-assertions+overflow-checks, rel = release)",
        "baseline_off_cmd": "cd /repo && cargo test --workspace --no-fail-fast --offline",
        "source_commits": hooks_commits,
        "add_only": True,
    },
    "engines": [{"name": "vh", "path": "/verif/harness", "serves_properties": [c["property_id"] for c in checks],
                 "kind_free_text": "Rust worker binary (seeded workload generators, reference models, runtime monitors, panic/exit-status capture) sharded over processes by the python orchestrator /verif/check, which aggregates evidence and classifies violations against known_findings.json"}],
    "checks": checks,
    "not_applicable": na,
    "notes": T.NOTES,
}
json.dump(m, open(os.path.join(VERIF, "MANIFEST.json"), "w"), indent=1, ensure_ascii=False)
print("checks:", [c["property_id"] for c in checks], "not claimed:", [n["property_id"] for n in na])
