#!/bin/bash
# usage: lib/sweep_ids.sh "id1 id2 ..."  (sequential, on /tmp/mutrepo)
cd /verif
for n in $1; do lib/sweep_alt.sh "$n" >/dev/null 2>&1; done
echo "ALLDONE" >> work/sweep-alt.log
