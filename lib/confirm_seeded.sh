#!/bin/bash
# usage: confirm_seeded.sh Cxx mN  — confirms in the scratch worktree /tmp/wt/Cxx that the mutation
# (a) passes the repository test suite, (b) fails its demonstration, (c) demonstration passes without it
id="$1"; m="$2"; wt=/tmp/wt/$id; out=$wt/_out/$m
cd "$wt" || exit 9
git checkout -q -- . ; rm -f sudachi/tests/demo.rs
git apply "$out/patch.diff" || { echo "$id $m: PATCH-FAIL"; exit 1; }
suite=$(cargo test --workspace --no-fail-fast --offline 2>&1 | grep -E "^test result" | awk '{p+=$4; f+=$6} END {print p"/"f}')
if [ -f "$out/demo.rs" ]; then
  cp "$out/demo.rs" sudachi/tests/demo.rs
  cargo test --offline -p sudachi --test demo >/tmp/wt/$id-$m-with.log 2>&1; with=$?
  git checkout -q -- .
  cargo test --offline -p sudachi --test demo >/tmp/wt/$id-$m-without.log 2>&1; without=$?
  rm -f sudachi/tests/demo.rs
else
  with=NA; without=NA; git checkout -q -- .
fi
echo "$id $m: suite(pass/fail)=$suite demo_with_mutation_rc=$with demo_without_rc=$without"
