#!/usr/bin/env python3
"""Writes seeded/<id>-mN/meta.json from the sub-agent's meta, the confirmation logs and the last sweep."""
import json, os, re, glob, sys
ONLY = sys.argv[1].split() if len(sys.argv) > 1 else None  # ids to (re)write; default: all (needs the sweep logs of all of them in work/)
V = "/verif"
confirm = {}
for f in glob.glob("/verif/seeded/_confirm/confirm*.log"):
    for l in open(f):
        m = re.match(r"(C\d+) (m\d+): suite\(pass/fail\)=(\S+) demo_with_mutation_rc=(\S+) demo_without_rc=(\S+)", l)
        if m:
            confirm["%s-%s" % (m.group(1), m.group(2))] = {"suite_pass_fail": m.group(3), "demo_rc_with_change": m.group(4), "demo_rc_without": m.group(5)}
confirm.setdefault("C19-m1", {"suite_pass_fail": "255/0", "demo_rc_with_change": "1", "demo_rc_without": "0", "how": "bash run.sh in the scratch worktree"})
confirm.setdefault("C19-m2", {"suite_pass_fail": "255/0", "demo_rc_with_change": "1", "demo_rc_without": "0", "how": "bash run.sh in the scratch worktree"})
sweep = {}
for lf in [V + "/work/sweep.log", V + "/work/sweep-alt.log"]:
    if not os.path.exists(lf):
        continue
    for l in open(lf, errors="replace"):
        p = l.strip().split(" ", 2)
        if len(p) >= 2 and p[0].startswith("C"):
            sweep[p[0]] = {"result": p[1], "first_violation": p[2].strip() if len(p) > 2 else ""}
NOTES = json.load(open(V + "/lib/seeded_notes.json")) if os.path.exists(V + "/lib/seeded_notes.json") else {}
for d in sorted(glob.glob(V + "/seeded/C*/")):
    n = os.path.basename(d.rstrip("/"))
    if ONLY is not None and n not in ONLY:
        continue
    prop = n.split("-")[0]
    am = {}
    if os.path.exists(d + "meta.json") and not os.path.exists(d + "agent_meta.json"):
        old = json.load(open(d + "meta.json"))
        am = {"summary": old.get("summary", ""), "needs": old.get("needs_to_manifest", ""), "files": old.get("files", [])}
    if os.path.exists(d + "agent_meta.json"):
        try:
            am = json.load(open(d + "agent_meta.json"))
        except Exception:
            am = {}
    sw = sweep.get(n, {})
    meta = {
        "id": n,
        "property": prop,
        "source": NOTES.get(n, {}).get("source", "fresh sub-agent given only the property text%s and a scratch worktree" % (" (plus one-line summaries of the changes already known for the property, so that it would pick other sites)" if int(n.split("-m")[1]) >= 3 else "")),
        "summary": am.get("summary", NOTES.get(n, {}).get("summary", "")),
        "needs_to_manifest": am.get("needs", NOTES.get(n, {}).get("needs", "")),
        "files": am.get("files", []),
        "confirmed_in_scratch_worktree": confirm.get(n, NOTES.get(n, {}).get("confirm", {})),
        "confirmation_command": "lib/confirm_seeded.sh %s %s  (apply patch, cargo test --workspace --offline, run the demonstration with and without the change)" % (prop, n.split("-")[1]),
        "check_run": "lib/mutest.sh /verif/seeded/%s/patch.diff %s quick   (git -C /repo apply, ./check %s quick, git -C /repo checkout -- .)" % (n, prop, prop),
        "detected_by_quick_check": sw.get("result", "?") == "exit=1",
        "first_violation_reported": sw.get("first_violation", ""),
        "notes": NOTES.get(n, {}).get("notes", ""),
    }
    json.dump(meta, open(d + "meta.json", "w"), indent=1, ensure_ascii=False)
print("wrote", len(glob.glob(V + "/seeded/*/meta.json")))
