#!/usr/bin/env python3
"""Prepares one round of seeding:  wave_setup.py <worktree base>   (e.g. /tmp/wt10)
One detached worktree of /repo's HEAD per property with _out/PROPERTY.txt (the property text only) and
_out/ALREADY_KNOWN.txt (one-line summaries of the changes kept so far), and <base>/prompt-<Cxx>.txt for the sub-agent.
Nothing from /verif other than those summaries is shown to the agents."""
import glob
import json
import os
import subprocess
import sys

base = sys.argv[1]
os.makedirs(base, exist_ok=True)
props = {json.loads(l)['id']: json.loads(l) for l in open('/verif/properties.jsonl')}
for pid, p in props.items():
    wt = base + '/' + pid
    subprocess.run(['git', '-C', '/repo', 'worktree', 'add', '--detach', wt, 'HEAD'], check=True, capture_output=True)
    os.makedirs(wt + '/_out', exist_ok=True)
    open(wt + '/_out/PROPERTY.txt', 'w').write("%s: %s\n\n%s\n\nAnchors: %s\n" % (pid, p.get('title', ''), p['statement'], json.dumps(p.get('anchors'), ensure_ascii=False)))
    known = []
    for d in sorted(glob.glob('/verif/seeded/%s-m*' % pid)):
        f = d + '/meta.json' if os.path.exists(d + '/meta.json') else d + '/agent_meta.json'
        m = json.load(open(f))
        known.append("- " + (m.get('summary') or '')[:260].replace('\n', ' '))
    open(wt + '/_out/ALREADY_KNOWN.txt', 'w').write("\n".join(known) + "\n")
tmpl = open('/verif/lib/agent_prompt.tmpl').read().replace('/tmp/wt/CXX', base + '/CXX')
tmpl += '''
IMPORTANT — other people already produced the mutations summarised in BASE/CXX/_out/ALREADY_KNOWN.txt (about 18 of them). Read that list and produce TWO mutations that are DIFFERENT in code site and mechanism from all of them and from each other. The obvious sites are taken; to find new ones, (1) list every function on every call path that contributes to the property (including helpers in util/, config handling, error conversion, Drop/Default/Clone impls, iterator adaptors, macro-generated code, serde settings structs and their defaults, the plugin loader, storage/mmap handling, anything in python/src and sudachi-cli/src when the property mentions those layers), (2) cross off those the known list touches, (3) look at what is left for a slip that the existing tests do not notice. Think also of: an option or argument combination nobody tests; a value that is legal but extreme; the second call of something; the last element; an early return that skips a later step; a default that changes; two plugins/features interacting; something done in one mode / tier / code path but not in its sibling; an error path that leaves state behind; an older file format or a deprecated entry point that still has to work. A mutation may need an unusual but legal configuration, dictionary shape or API sequence to show. Do NOT produce trivial variations of known mutations. Your final answer may have up to 14 lines.
'''.replace('BASE', base)
for pid in props:
    open('%s/prompt-%s.txt' % (base, pid), 'w').write(tmpl.replace('CXX', pid))
print('ok', len(props))
