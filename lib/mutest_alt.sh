#!/bin/bash
# usage: lib/mutest_alt.sh <patch.diff> <Cxx> [quick|thorough]
# Tries a seeded change WITHOUT touching /repo: the patch is applied to the scratch worktree /tmp/mutrepo (created from
# /repo's HEAD on first use) and the check runs with VERIF_REPO pointing there (build output under work/alt).
set -u
patch="$1"; prop="$2"; tier="${3:-quick}"
alt=/tmp/mutrepo
if [ ! -d $alt ]; then git -C /repo worktree add -q --detach $alt HEAD || exit 9; fi
git -C $alt checkout -q --detach "$(git -C /repo rev-parse HEAD)" 2>/dev/null
git -C $alt checkout -q -- .
git -C $alt apply "$patch" || { echo "patch does not apply"; exit 9; }
cp /verif/evidence/$prop.json /verif/work/evidence-alt-$prop.bak 2>/dev/null
cd /verif && VERIF_REPO=$alt ./check "$prop" "$tier" > /verif/work/mutest-alt.out 2>&1; rc=$?
cp /verif/work/evidence-alt-$prop.bak /verif/evidence/$prop.json 2>/dev/null; rm -f /verif/replays/$prop-*.json
git -C $alt checkout -q -- .
grep -E "^(VIOLATION|KNOWN|INCONCLUSIVE|C[0-9]+ )|kind=" /verif/work/mutest-alt.out | head -12
echo "exit=$rc"
