"""Per-property plan: stages (build, shards, budgets), required observations, evidence text."""

NSH = 16


def main_stage(budget_q, budget_t, tier, build="mon", name="main", death_is_violation=False, extra=None, shards=NSH):
    quick = tier == "quick"
    return {
        "name": name, "build": build, "shards": shards,
        "budget": budget_q if quick else budget_t,
        # generous process watchdog: never a verdict, only "inconclusive"
        "timeout": (budget_q * 4 + 240) if quick else (budget_t * 3 + 600),
        "death_is_violation": death_is_violation,
        "extra": extra or [],
    }


COMMON_ASSUMPTIONS = [
    "verdicts cover only the executions produced by the seeded generators described in 'rule'",
    "reference models in /verif/harness/src are the specification the executions are compared with",
    "hooks (cargo feature 'verif' of crate sudachi) are observation-only",
]

PLANS = {
    "C01": lambda tier: {
        "level": "exploration",
        "stages": [main_stage(40, 240, tier),
                   # what the command-line tool prints line by line (surfaces reproduce every input line)
                   dict(main_stage(60, 240, tier, name="cli", shards=8), needs=["py", "cli"], extra=["--prop-alias", "C19", "--scale", "2"],
                        kinds_re="^cli_")],
        "require": ["deprecated_splits_checked", "single_unit_splits_seen", "morphemes_checked", "class_rewritten", "class_multi_morpheme", "class_split_token", "long_inputs_accepted", "nonempty_inputs_normalised_to_empty", "cli.cli_runs_compared"],
        "rule": "seeded worlds (random matrix + lexicon with A/B compounds + 0-3 user dictionaries + random plugin stack "
                "incl. NFKC/lower-casing, prolonged-sound-mark collapsing, yomigana deletion, MeCab/regex/simple OOV, "
                "numeric/katakana joining) x texts built from dictionary keys, near misses, numerals, katakana runs, "
                "yomigana and hostile noise x modes A/B/C; every result and every on-demand split is checked against the "
                "literal partition/surface clauses. distinct_nontrivial = distinct (world,mode,text) whose normalised text "
                "differs from the input, or that has >1 morpheme, an empty-range morpheme or a split token. Every second world also offers inputs of ~49,000 / ~49,400 / 65,500-69,500 bytes (whatever is accepted must partition), every third world has unusual prolonged-sound-mark / yomigana settings (empty or longer replacement, other marks and brackets) with texts made of marks only: an input whose normalised form is empty must yield no morphemes. Every other world has compounds that declare a single B unit; Morpheme::split (the older entry point that adds the morpheme itself when nothing was split) must return a partition of the parent's range for every morpheme and mode.",
        "assumptions": COMMON_ASSUMPTIONS,
    },
    "C02": lambda tier: {
        "level": "exploration",
        "stages": [main_stage(40, 240, tier)],
        "require": ["positions_oov_set_compared_with_providers", "positions_served_by_the_last_provider_only", "lattice_nodes_checked", "lattices_with_alternative_paths", "results_compared_with_chain", "rewritten_results_cost_checked",
                    "dictionary_candidates_expected_and_found", "worlds_nonsquare_matrix"],
        "rule": "seeded worlds (square and non-square matrices with negative / extreme costs, inhibited pairs, homographs, "
                "overlapping keys, user dictionaries, random OOV stacks; path-rewrite plugins in 1 of 5 worlds) x texts of "
                "<=200 chars; the complete lattice is read through hook H4 and an independent i64 shortest-path DP over the "
                "observed nodes (costs from the generated matrix text, never ConnectionMatrix::cost) is compared with every "
                "node's total cost, the EOS cost, the back-pointer chain, Morpheme::total_cost and get_internal_cost; every "
                "source-CSV row matching at a reachable boundary must be present with its declared parameters. "
                "distinct_nontrivial = distinct (world,text) whose lattice has complete paths of different cost. With path-rewrite plugins every reported morpheme must carry the cumulative cost recomputed along the path up to the chain node that ends where it ends. At every reachable position the out-of-vocabulary nodes of the lattice are compared with what the configured providers return when asked directly through the public plugin trait in the documented order (all of them unless the character is NOOOVBOW/NOOOVBOW2, each told the character lengths of the words that exist so far; the last one again when nothing exists).",
        "assumptions": COMMON_ASSUMPTIONS + ["permissible word ends are taken from InputBuffer::can_bow (checked against its own model in C13)"],
    },
    "C17": lambda tier: {
        "level": "exploration",
        "stages": [main_stage(30, 240, tier)],
        "require": ["code_points_checked", "definitions_with_overlapping_lines", "permutations_checked", "iter_ranges_checked", "code_points_checked_through_from_file"],
        "rule": "seeded definition files (0-40 lines; overlapping, nested, adjacent, duplicated, single-point ranges; ranges at 0, "
                "around the surrogate gap and at U+10FFFE; 1-3 classes per line incl. ALL, NOOOVBOW, NOOOVBOW2; hex spelling "
                "variants, comments) loaded with CharacterCategory::from_reader; for EVERY Unicode scalar value (1,112,064 per "
                "definition, exhaustive per definition) the reported class set is compared with the union over covering lines "
                "(DEFAULT if none); the same lines in shuffled order must give the same answer; iter() must tile the code space "
                "and agree. distinct_nontrivial = distinct definitions in which some code point is covered by >=2 lines. Every definition is also written to one fixed path (rewritten each time) and loaded with CharacterCategory::from_file; range ends +-1 and anchors are compared.. Ranges ending at U+D7FF / U+10FFFF are generated as well (the reader refuses them today; should they load, every check applies)",
        "assumptions": COMMON_ASSUMPTIONS + ["only definitions that load are judged (the property says so)"],
    },
    "C08": lambda tier: {
        "level": "exploration",
        "stages": [main_stage(30, 240, tier),
                   # begin()/end()/len() as the Python binding reports them (code points)
                   dict(main_stage(60, 240, tier, name="pyoffsets", shards=8), needs=["py", "cli"], extra=["--prop-alias", "C19", "--scale", "2"],
                        kinds_re="^python_(code_point_slice|len)$")],
        "require": ["edit_batches", "histories_with_several_batches", "map_positions_checked", "built_positions_checked",
                    "morpheme_offsets_checked", "tokenizations_rewritten_multibyte", "split_morpheme_offsets_checked", "expanding_inputs_near_the_limit_accepted", "deprecated_split_results_checked", "pyoffsets.py_morphemes"],
        "rule": "part A: seeded originals (1-12 chars mixing 1-4 byte characters) x histories of 1-4 edit batches on a real InputBuffer "
                "through with_editor (sorted non-overlapping non-empty ranges on char boundaries at start/middle/end/adjacent, replaced by "
                "empty/equal/shorter/longer strings through replace_ref/char/char_iter/own; histories emptying the text are cut); after "
                "every batch the map position->original is checked at every char boundary (monotone, start->0, end->len, char boundaries, "
                "each unreplaced character -> its own start, tracked by provenance), after build() the code-point table and random query "
                "ranges are checked. part B: whole tokenizations (random worlds incl. all input-text plugins): begin_c/end_c vs code points "
                "before begin/end and code-point slicing vs surface. distinct_nontrivial = distinct histories with >=2 batches or a "
                "length-changing edit, plus distinct rewritten multi-byte tokenizations. Offsets of on-demand split results (into a list created empty and into a cleared list that held another text's result); inputs of U+337F x 5400..5560 whose normalised form is around 65,535 bytes; a successful analysis whose offsets cannot be read is a violation.",
        "assumptions": COMMON_ASSUMPTIONS + ["zero-width insertions are not generated (not covered by the statement)",
                                             "the first character after a deletion at the very start may map to 0 (start->start wins)"],
    },
    "C04": lambda tier: {
        "level": "exploration",
        "stages": [main_stage(40, 300, tier, death_is_violation=True),
                   main_stage(60, 120, tier, build="valgrind", name="valgrind", death_is_violation=True, shards=8),
                   # exact-surface lookup through the Python binding (Dictionary.lookup, also into a reused list)
                   dict(main_stage(60, 240, tier, name="pylookup", shards=8), needs=["py", "cli"], extra=["--prop-alias", "C19", "--scale", "2"],
                        kinds_re="^python_lookup$")]
                  + ([] if tier == "quick" else [
                      main_stage(60, 300, tier, build="asan", name="asan", death_is_violation=True),
                      dict(main_stage(60, 900, tier, build="miri", name="miri"), shards=16)]),
        "require": ["stacks_with_version_1_user_dictionaries", "worlds_with_a_key_of_exactly_127_entries", "lookups_with_matches", "exact_lookups", "trie_accesses_seen_by_hook", "word_id_table_accesses_seen_by_hook", "huge_dictionary_keys_checked",
                    "valgrind.lookups_with_matches", "pylookup.py_lookups", "lookups_beyond_65535_bytes", "compilations_from_two_files_compared", "stacks_loaded_from_files"],
        "rule": "seeded dictionary stacks (system + 0..14 user layers; keys sharing prefixes, prefix chains, 2-127 homographs, astral / "
                "single-byte keys, non-indexed rows, bulk lexicons of 100-4000 keys, thorough: 20k-70k keys so word-id-table offsets cross "
                "255 and 65535; loaded aligned and from an odd address) x texts x EVERY byte offset (also inside characters): the multiset "
                "of (dictionary, word number, end) from LexiconSet::lookup is compared with an exact-match scan of the source CSV keys; "
                "MorphemeList::lookup(q) with rows whose key == q; hook H3 must record no out-of-range trie / table access. "
                "distinct_nontrivial = distinct (world,text,offset) with at least one expected match. Keys with 128 / 255 / 256 / 257 / 300 entries (over the format limit of 127: compiler must reject, or lookup must return all); one world per quick run with ~300,000 keys, i.e. a double array of >2^20 units (unit count read from the binary image), every key looked up.. Texts with a NUL strictly inside an occurrence of a key Homograph groups of 126 / 127 / 128 entries are generated with every entry indexed (127 is the most the format holds); every fourth stack has user lexicons re-encoded in the first user-dictionary layout.",
        "assumptions": COMMON_ASSUMPTIONS,
    },
    "C05": lambda tier: {
        "level": "exploration",
        "stages": [dict(main_stage(40, 300, tier), needs=["cli"])] + ([] if tier == "quick" else [
            dict(main_stage(60, 900, tier, build="miri", name="miri"), shards=16)]),
        "require": ["fields_compared", "matrix_cells_compared", "recompilations_compared", "loads_at_other_alignment",
                    "cli_builds_from_several_files", "worlds_with_sparse_matrix_text", "repeated_compilations_of_one_builder", "partial_reads_compared", "index_lookups_compared"],
        "rule": "seeded lexicons (homographs, non-indexed rows, differing headword/reading/normalised forms, dictionary-form references, "
                "numeric and inline A/B split references, word structure, 0-127 synonym ids, \\u escapes, strings of 1/126/127/128/129/255/256/"
                "1000/10922 UTF-16 units incl. surrogate pairs, keys of 126-255 bytes, empty forms) + square / non-square matrices with "
                "extreme costs + 0-3 user dictionaries (U-references, own POS); every field of every entry and every matrix cell of the "
                "loaded dictionary is compared with the source model; each input is compiled twice (byte comparison) and, in every fourth world, "
                "once more with `sudachi build` from 1-3 lexicon files whose command order is not alphabetical (bytes equal except the time stamp); the bytes are "
                "re-loaded from base+1..base+7 and all observations compared. distinct_nontrivial = distinct lexicons containing split "
                "references that passed all comparisons. Every third world uses a matrix text that lists only the non-zero cells, last line first (unlisted cells cost 0)",
        "assumptions": COMMON_ASSUMPTIONS + ["an empty reading / normalised form in the CSV is not compared (format's spelling of 'same as headword')",
                                             "user-dictionary dic_form is always '*' in the main generator (D18)",
                                             "determinism is checked in-process (std HashMap seeds differ per instance, so hash-order dependence would show)"],
    },
    "C03": lambda tier: {
        "level": "exploration",
        "stages": [
            main_stage(40, 300, tier, death_is_violation=True),
            main_stage(40, 300, tier, build="rel", name="rel", death_is_violation=True),
            main_stage(60, 120, tier, build="valgrind", name="valgrind", death_is_violation=True, shards=8),
            # the command-line tool (built with debug assertions and overflow checks) must not die on any input file /
            # option combination
            dict(main_stage(60, 240, tier, name="cli", shards=8), needs=["py", "clidbg"], cli_debug=True, extra=["--prop-alias", "C19", "--scale", "2"],
                        kinds_re="^cli_failed$"),
        ] + ([] if tier == "quick" else [
            main_stage(60, 300, tier, build="asan", name="asan", death_is_violation=True),
            dict(main_stage(60, 900, tier, build="miri", name="miri", death_is_violation=False), shards=16),
        ]),
        "require": ["morphemes_touched", "matrix_reads_seen_by_hook", "limit_worlds", "too_long_errors", "long_inputs_handled", "debug_mode_analyses", "cli.cli_runs_compared", "configurations_without_oov_provider_refused",
                    "rel.morphemes_touched", "valgrind.morphemes_touched", "probe_scenarios"],
        "rule": "seeded worlds (full random plugin stacks, cost extremes, compounds whose last unit is longer than declared, user "
                "dictionaries, aligned and odd-address loads) x hostile texts (NUL/controls, combining marks, ZWJ, variation selectors, emoji "
                "modifiers, astral/unassigned/private-use points, 18x NFKC expanders, 1-150 repeats of one character, dictionary keys and "
                "near misses) x modes A/B/C x random field subsets on reused tokenizers; every 8th world probes the limits with inputs of "
                "exactly 49148/49149/49150/49152/60000/70000 bytes and U+FDFA runs whose normalised length is 65495/65534/65535/65536/65537/"
                "65568/90000 bytes, interleaved with ordinary inputs. Monitors: panic hook (site+message), process exit status, hooks H2/H3 "
                "(out-of-range matrix/trie/table access), expected Ok/InputTooLong class, partition of every Ok result, every accessor of every "
                "morpheme and of its A/B on-demand splits. Stages: debug-assertion+overflow-check build, release build, valgrind memcheck on "
                "release; thorough adds ASan and Miri (no aliasing model) on reduced sets. distinct_nontrivial = distinct (world,mode,text) "
                "that completed all accessor calls. A tokenizer with the debug flag on (lattice / path dumps; standard output discarded) analyses inputs of varying length in every world; every third world has unusual input-text plugin settings (empty replacement etc.) and texts made of marks / brackets only.",
        "assumptions": COMMON_ASSUMPTIONS + ["known findings D9, D10, D19 are generated only by their labelled probe scenarios",
                                             "Miri runs with -Zmiri-disable-stacked-borrows (the tree deliberately breaks the aliasing models, DESIGN.md 2.2)"],
    },
    "C07": lambda tier: {
        "level": "exploration",
        "stages": [main_stage(60, 300, tier)],
        "require": ["tables_with_kanji_of_other_byte_widths", "scalar_values_checked", "default_rewrites_checked", "fast_vs_general_path_pairs", "tables_with_prefix_related_keys",
                    "prolonged_rewrites_checked", "yomigana_deletions", "full_stack_normalisations_checked"],
        "rule": "(a) every Unicode scalar value alone (1,112,064 inputs, exhaustive; split over the shards) through DefaultInputTextPlugin with "
                "the shipped rewrite.def (thorough: also an empty and an ignore-only table) against the reference nfkc(lowercase(c)) / exempt / "
                "table rule (title-case letters: both readings accepted); (b) seeded rewrite tables (exempt characters, multi-character keys "
                "and values, keys that are prefixes / extensions of other keys, keys containing characters that would otherwise be lower-cased "
                "or NFKC-normalised) x strings over the table alphabet + expanders + hostile characters, compared with the leftmost-longest "
                "reference; relational check: the rewrite of x alone equals the rewrite of x inside a text that forces the general code path; "
                "(c) random prolonged-sound-mark sets / replacement symbols and yomigana bracket sets / max lengths against span-level "
                "references; (d) the whole stack through do_tokenize. distinct_nontrivial = distinct (table/settings,text) that were actually "
                "rewritten and matched the reference Every third world files ideographs outside the basic plane (4 bytes) and some 2-byte letters under KANJI, and the yomigana texts contain them.",
        "assumptions": COMMON_ASSUMPTIONS + ["NFKC and case tables of unicode-normalization / std are the trusted base",
                                             "character classes for the yomigana reference come from CharacterCategory (checked by C17)"],
    },
    "C16": lambda tier: {
        "level": "exploration",
        "stages": [main_stage(40, 300, tier, death_is_violation=True),
                   # the second observation point of the property: `sudachi --split-sentences=only` (C19's driver; only the
                   # runs that print sentences are judged here)
                   dict(main_stage(60, 240, tier, name="cli", shards=8), needs=["py", "cli"], extra=["--prop-alias", "C19", "--scale", "2"],
                        kinds_re="^cli_sentences")],
        "require": ["cli.cli_sentence_only_runs_compared", "sentences_checked", "texts_with_several_sentences", "small_window_runs", "texts_longer_than_the_window", "probe_scenarios", "lexicons_with_user_dictionaries"],
        "rule": "seeded lexicons (ordinary words, words containing / ending with terminators such as 'モーニング娘。', 'な。な', 'Yahoo!', "
                "one-character terminator entries '。' '！' '?', words made of closers) x seeded texts (terminator runs, periods in numbers and "
                "itemisation headers, nested / unbalanced brackets of 12 kinds, quote particles after terminators, <br> runs of mixed case, "
                "middle-dot runs, commas, hostile characters, texts of >9000 chars) x {default window, window larger than the text, random "
                "small window 1..len} x {with, without dictionary checker}; oracles P1 partition + bounded iteration, P2 terminator at the "
                "end of every non-last sentence, P3 untyped bracket level 0 at the break, P4 no break inside/at the end of a multi-character "
                "dictionary word containing the terminator, P5 conservative converse (missed break) judged only when the window saw the "
                "terminator. distinct_nontrivial = distinct (text,limit,checker) split into >=2 sentences. Every second lexicon is layered: words moved to 1-3 user dictionaries plus user words that extend a system word across a terminator. Texts also contain quotation marks and angle brackets that are not among the statement's bracket pairs.",
        "assumptions": COMMON_ASSUMPTIONS + ["P5 demands a break only where every veto of the statement is clearly absent (DESIGN.md 6/C16)",
                                             "known findings D12 (window without boundary) and D13 (back-track limit) only through their probes; "
                                             "small-window / long-text cases that fall into the D12 region are counted, not judged"],
    },
    "C15": lambda tier: {
        "level": "exploration",
        "stages": [main_stage(40, 300, tier)],
        "require": ["worlds_with_numeral_entries_that_declare_units", "wellformed_numerals_checked", "shape_plain", "shape_plain+separators", "shape_plain+fraction", "shape_units", "bad_separator_groupings_checked",
                    "shape_units+fraction", "mutated_numerals_checked", "joined_tokens_evaluated", "probe_scenarios"],
        "rule": "numerals generated FROM A VALUE: plain digit strings of 1-60 Arabic / kanji digits with optional thousands separators and "
                "fraction (leading zeros kept), and unit numerals with up to four 10^4 groups (兆 億 万 ones; groups written with 千百十 with "
                "or without leading 一, or as plain digits; optional fraction after a final digit); 1-3 numerals per text separated by context "
                "words, half-width or full-width spelling (with the default input-text plugin); dictionary = one numeral-POS word per digit / "
                "unit and one symbol word per separator / point, so every multi-character token is a join. Well-formed: exactly one token "
                "covering the numeral whose normalized_form is the expected rendering. Mutated (1 in 4): every joined token is re-evaluated "
                "by an independent evaluator: well-formed -> value must match, clearly malformed (separator groups, dangling / adjacent "
                "points, small units out of order) -> must not exist, unspecified shapes counted. distinct_nontrivial = distinct "
                "well-formed numerals that were joined with the right value. Runs of digits and separators only with a bad grouping (own generator): no piece may be joined across a separator.. A point directly followed by a unit (\"8.万5\") counts as a dangling point Every third world has cheap multi-character numeral entries that declare A/B units (二十 = 二/十 ...): a joined numeral beginning with one of them is one token in every mode.",
        "assumptions": COMMON_ASSUMPTIONS + ["repeated large units (known finding D22) are judged only through the labelled probe",
                                             "a fraction directly after a unit and decimal coefficients of large units are 'unspecified'"],
    },
    "C14": lambda tier: {
        "level": "exploration",
        "stages": [main_stage(40, 300, tier)],
        "require": ["single_numeral_values_checked", "merged_tokens_checked", "unmerged_tokens_compared", "single_numeral_tokens_renormalised"],
        "rule": "seeded worlds loaded twice from the same bytes, with and without pathRewritePlugin (numeric joining with/without "
                "enableNormalize, katakana-OOV joining with minLength 1-4, both orders; random input-text and OOV stacks, user dictionaries; "
                "numeral-POS and non-numeral-POS words over digits / kanji numerals / units, multi-character words over numeral characters, "
                "short katakana words of assorted POS) x texts rich in numerals, separators and katakana runs x modes A/B/C. Tokens are "
                "matched on normalised-text positions: every with-plugin token must be one base token unchanged (all observable fields) or "
                "the union of consecutive base tokens with concatenated dictionary-side surface and the prescribed POS; a single numeral "
                "token may only have its normalised form / word id rewritten. distinct_nontrivial = distinct (world,mode,text) containing "
                "a real merge that passed. A lone numeral token whose normalised form is rewritten must receive the value of its own normalised form (independent evaluator of C15). Full-width digit entries with numeral POS (unreadable for the plugin) occur when nothing normalises the input: a lone token whose normalised form is not made of the plugin's numeral characters must stay unchanged.",
        "assumptions": COMMON_ASSUMPTIONS + ["single-token numeral normalisation counts as a degenerate merge (the repository's own tests require 一 -> 1)"],
    },
    "C13": lambda tier: {
        "level": "exploration",
        "stages": [main_stage(40, 300, tier)],
        "require": ["definition_sets_whose_last_provider_is_not_the_simple_one", "definition_sets_with_a_class_table_of_the_provider", "positions_checked", "oov_candidates_expected", "run_lengths_checked", "texts_with_runs_longer_than_one", "oov_morphemes_checked"],
        "rule": "seeded definition sets: char.def giving each of 21 alphabet characters (letters, digits, kana, kanji, 々, emoji + skin-tone "
                "modifier, combining mark, Greek, Cyrillic, space) 1-3 classes, ALL for modifiers / combining marks, NOOOVBOW / NOOOVBOW2, "
                "overlapping ranges; category table with random invoke/group/length per class; unk.def with 0-3 lines per class; provider "
                "stacks = any order of MeCab and Regex (strict/relaxed, max length 2/3/32/100, patterns incl. empty-matching and 70-char "
                "ones) followed by Simple; a small dictionary over the same alphabet. Texts of 1-12 character runs (1-3 repeats, sometimes "
                "65-75 repeats). Per text: classes, word-start permission and class-run lengths of the built InputBuffer vs the model "
                "(left-to-right segmentation, two readings of 'class in common'); at EVERY reachable lattice position (hook H4) the set of "
                "OOV nodes (begin,end,left,right,cost,POS) vs the model of the provider chain incl. the created-words bitmap and fallback "
                "re-invocation; OOV morphemes report is_oov, dictionary -1, a candidate POS and the normalised slice as forms. "
                "distinct_nontrivial = distinct (definitions,text) that passed all comparisons In every other definition set the MeCab provider is configured with a class table of its own (charDef) while the tokenizer's char.def carries the same ranges with other invoke/group/length columns. One stack in five ends with the MeCab or regex provider (no simple provider): the last provider is an ordinary provider at every position and the one asked again when nothing exists.",
        "assumptions": COMMON_ASSUMPTIONS + ["dictionary candidates at a position are taken from the observed lattice (checked by C02/C04)",
                                             "the regex crate is the trusted base for the regex provider's reference",
                                             "duplicated candidates are ignored (the property speaks of which candidates exist)"],
    },
    "C11": lambda tier: {
        "level": "exploration",
        "stages": [main_stage(60, 300, tier),
                   # field requests as the Python binding spells them (fields={...}): split results and per-call overrides
                   dict(main_stage(60, 240, tier, name="pyfields", shards=8), needs=["py", "cli"], extra=["--prop-alias", "C19", "--scale", "2"],
                        kinds_re="^python_(split|mode_override|pretokenizer_fields|projection)$")],
        "require": ["splits_of_looked_up_words_compared", "words_swept_over_all_subsets", "tokenizations_compared", "tokenizations_where_only_partition_is_promised", "pyfields.py_field_split_checks"],
        "rule": "seeded stacks (system + 0-3 user dictionaries, with/without synonym ids, splits, dictionary-form references); for EVERY word "
                "of every layer and EVERY one of the 1,024 field subsets S (exhaustive per word): get_word_info_subset(id, S.normalize()) "
                "read through the public accessors must agree with the full load on every field in S; plus tokenizations with "
                "set_subset(S)/set_mode(m) in both orders in modes A/B/C: partition always, boundaries + word ids + requested fields equal to "
                "the full-field analysis when no path-rewrite plugin is configured or S contains surface, POS and normalised form. "
                "distinct_nontrivial = distinct words whose 1,024 subsets all agreed Compounds are looked up with all fields into a list that last held a narrow-request analysis and the words found are split: the parts must carry the same fields as on a new list.",
        "assumptions": COMMON_ASSUMPTIONS + ["the closure InfoSubset::normalize() is applied before the low-level call (as the tokenizer does)"],
    },
    "C10": lambda tier: {
        "level": "exploration",
        "stages": [main_stage(40, 300, tier),
                   # the Python binding keeps state of its own (per-call mode override, out= lists): the history part of
                   # C19's driver runs here too; only its history kinds are judged under this property
                   dict(main_stage(60, 240, tier, name="pyhist", shards=8), needs=["py", "cli"], extra=["--prop-alias", "C19", "--scale", "2"],
                        kinds_re="^(python_(history|mode_override)|cli_rejected_line)$")],
        "require": ["worlds_with_regex_debug_errors_possible", "history_analyses_failed_by_a_provider_error", "probes_compared_after_input_plugin_failures", "analyses_refused_by_an_input_text_plugin_with_edits_pending", "truncated_images_used", "analyses_failed_after_the_path_was_found", "probes_compared_after_late_failures", "history_operations", "probes_compared", "history_analyses_rejected", "histories_completed", "pyhist.py_history_probes", "pyhist.py_override_checks"],
        "rule": "seeded worlds (random plugin stacks incl. MeCab / regex OOV, path-rewrite plugins in 1 of 3) x histories of 5-40 operations on "
                "ONE long-lived StatefulTokenizer + reused MorphemeList + reused split list: set_mode, set_subset (random of the 1,024 subsets; "
                "restricted to supersets of surface/POS/normalised form when path-rewrite plugins are configured), analyse(text: empty, "
                ">49,149 bytes, NFKC-expanding beyond 65,535 bytes, 5-85 repeats of one character, long and short key texts), split_into. "
                "After EVERY operation a probe text is analysed by the long-lived pair and by a freshly created tokenizer + list with the same "
                "mode and field request; boundaries, word ids and every requested field (through the accessors) must be equal, and a failed "
                "analysis must leave the tokenizer usable. distinct_nontrivial = distinct histories that completed with all probes equal. Every second history also compares each probe with StatelessTokenizer::tokenize (a new analyser per call, into_morpheme_list). Every other world is also loaded from a system image that lost its last bytes: texts whose best path holds the unreadable last word fail AFTER the lattice was built; histories mixing them with ordinary texts are probed against a fresh tokenizer on the same image after every operation. Every sixth world runs the regex provider with its debug checks and a pattern with an unanchored alternative, with texts of 64+ letters so that an analysis fails at a position where another provider has already created a long word and a later text has a regex word of that length. Every fourth world is also driven through a dictionary view whose input-text plugin queues edits and then fails on a trigger character.",
        "assumptions": COMMON_ASSUMPTIONS + ["the fresh tokenizer of the same tree is the executable model"],
    },
    "C09": lambda tier: {
        "level": "exploration",
        "stages": [main_stage(40, 300, tier),
                   # Morpheme.split and the per-call mode override of the Python binding: split and history kinds of C19's driver
                   dict(main_stage(60, 240, tier, name="pysplit", shards=8), needs=["py", "cli"], extra=["--prop-alias", "C19", "--scale", "2"],
                        kinds_re="^python_(split|history|mode_override)$")],
        "require": ["split_tokens_checked", "unsplit_tokens_checked", "on_demand_splits_checked", "split_texts_where_normalised_length_differs", "on_demand_splits_into_nonempty_lists", "worlds_with_path_rewrite_plugins", "pysplit.py_splits_compared", "pysplit.py_split_out_checks"],
        "rule": "seeded worlds whose declared A/B units concatenate to the key (system->system, user->system, user->user references in "
                "numeric, U-prefixed and inline notation; units of mixed byte width; 0-4 user dictionaries; random input-text / OOV stacks, no "
                "path-rewrite plugins) x texts made of compound keys in plain / upper-case / full-width spelling plus filler; the same text "
                "is analysed in modes C, A, B and tokens are matched on normalised-text positions: every C boundary is kept; a C token "
                "declaring >=2 units yields exactly those word ids (from the source model) with ranges = key lengths, last unit to the parent "
                "end, partitioning the parent's original range; other tokens are unchanged; split_into of each C morpheme into a fresh and "
                "into a recycled output list equals the direct analysis (>=2 units) or reports nothing (no units). distinct_nontrivial = "
                "distinct (world,text) containing at least one split token that passed. Every fourth world has the path-rewrite plugins and numeral compounds with declared units (a joined token declares none and must stay whole in A/B); split_into is also called with an output list that already holds morphemes (must append the units / report false and append nothing).. In every second world where the mode is set after the field request, a first analysis in mode C is made before set_mode",
        "assumptions": COMMON_ASSUMPTIONS + ["words declaring exactly one unit are not judged for the split API (statement speaks of >=2 or none)"],
    },
    "C12": lambda tier: {
        "level": "exploration",
        "stages": [main_stage(60, 300, tier),
                   # dictionary numbers, POS and references as the Python binding reports them (fields incl. the raw word info, lookup)
                   dict(main_stage(60, 240, tier, name="pyrefs", shards=8), needs=["py", "cli"], extra=["--prop-alias", "C19", "--scale", "2"],
                        kinds_re="^python_(field|lookup|build)$")],
        "require": ["stacks_with_a_missing_listed_file_refused", "stacks_listed_with_relative_paths", "stacks_with_version_1_user_dictionaries", "rows_checked", "system_rows_compared_with_zero_layer_load", "morphemes_checked", "oov_morphemes_checked", "stacks_loaded_from_files", "morpheme_passes_with_a_field_subset", "stacks_with_version_2_user_dictionaries", "stacks_built_with_ConfigBuilder_user_dict", "pyrefs.py_word_infos_compared",
                    "fifteenth_dictionary_rejected_with_error", "plugin_registered_pos_2"],
        "rule": "seeded stacks of 0, 1, 2, 3-13, 14 and 15 user dictionaries over a generated system dictionary; each layer compiled the way the "
                "CLI does (against a plain load of the system dictionary), with POS that exist only in that layer, POS shared between layers "
                "and with the system, U-prefixed / inline / numeric split and word-structure references; 0-3 POS registered before by OOV "
                "providers with userPOS=allow (one of them equal to a user-dictionary POS). Checks: every row of every layer read back "
                "(declared POS strings, references resolved to layer 0 or the own layer and the right row, found by lookup under its own "
                "dictionary number); every system row compared with a zero-layer load; texts containing each word + plugin-OOV triggers: "
                "dictionary_id / is_oov / part_of_speech of every morpheme; 15 layers must give an Err (no panic, no acceptance). "
                "distinct_nontrivial = distinct stacks with >=2 layers (or the 15-layer rejection) that passed. Every second stack of 1-8 layers is also loaded from files through JapaneseDictionary::from_cfg (systemDict / userDict paths) with one user dictionary listed twice in a row: every listed file is a layer of its own (lookup under its number, POS, split references). The morpheme-level pass runs a second time on a tokenizer that requests only part of the fields (POS among them) In a quarter of the stacks every other user lexicon uses system parts of speech only and its image is re-encoded in the first user-dictionary layout (no POS block, other magic number): all row, reference, dictionary-number and morpheme checks apply unchanged. File-based stacks are listed with relative names in half of the cases; a list with a file that does not exist must fail to load, or at least keep every later dictionary under its list position.",
        "assumptions": COMMON_ASSUMPTIONS + ["user-dictionary dic_form is '*' (known defect D18 is not part of this property's generator)"],
    },
    "C20": lambda tier: {
        "level": "exploration",
        "stages": [main_stage(60, 300, tier, death_is_violation=True),
                   main_stage(60, 300, tier, build="rel", name="rel", death_is_violation=True)],
        "require": ["configurations_accepted", "configurations_rejected", "analyses_with_accepted_configuration", "matrix_reads_seen_by_hook",
                    "matrix_cells_read_back", "rel.configurations_accepted", "rel.matrix_reads_seen_by_hook"],
        "rule": "ENUMERATION of the statement's grid: matrices of 8 (thorough: 16) shapes incl. non-square ones x {SimpleOovPlugin, "
                "RegexOovProvider, MeCab unk.def line} x leftId x rightId over {-1,0,n-1,n,n+1,m-1,m,m+1,32767,32768,65535,65536}; cost over "
                "{-32769,-32768,-1,0,32767,32768,65535,100000}; POS present/absent x userPOS allow/forbid/omitted (also combined with an invalid "
                "id); inhibitPair [a,b] over the same value grid. Oracle: loading returns Ok iff every id indexes the matrix in the sense analysis "
                "uses it, the cost fits i16 and the POS exists or is allowed; never a panic; for accepted inhibit pairs exactly that cell "
                "changed (all cells read back); for every accepted configuration texts that put the configured OOV node next to every "
                "dictionary word are analysed and hook H2 must see no out-of-range matrix access (debug-assertion and release builds). "
                "distinct_nontrivial = distinct grid points at a boundary (id within 1 of a matrix dimension, cost at the i16 limits, absent POS)",
        "assumptions": COMMON_ASSUMPTIONS + ["known finding D1 (id == size accepted) is recognised by evaluating the tree's "
                                             "acceptance rule ('>' instead of '>='): only outcomes that differ from BOTH the correct rule "
                                             "and that rule are new violations"],
    },
    "C06": lambda tier: {
        "level": "fault_enumeration",
        "stages": [dict(main_stage(60, 300, tier, death_is_violation=True), needs=["py", "cli"]),
                   main_stage(60, 300, tier, build="rel", name="rel", death_is_violation=True),
                   dict(main_stage(30, 30, tier, name="d24probe", death_is_violation=True, shards=1), abort_probe="D24")],
        "require": ["sink_fault_points", "dictionaries_with_every_failure_offset_enumerated", "mutated_inputs", "inputs_accepted", "descriptions_tried", "longer_call_sequences_accepted", "longer_call_sequences_rejected", "py_sink_fault_points", "py_user_sink_fault_points", "cli_sink_fault_points",
                    "inputs_rejected_with_error", "accepted_dictionaries_loaded", "analyses_with_accepted_dictionaries", "probe_scenarios",
                    "rel.sink_fault_points", "rel.mutated_inputs"],
        "rule": "(b, the fault enumeration) for every 4th generated dictionary the output sink is made to fail after k bytes for EVERY k in "
                "0..len (dictionaries <= 4 KiB: exhaustive; larger: 300 sampled offsets + edges), once with a plain error and once with a short "
                "write followed by an error: compile must return Err and must not panic. (a) 10 structure-aware mutations per generated "
                "(matrix, lexicon): dropped / duplicated / swapped fields, truncated rows, non-numeric / out-of-range numbers, connection ids at "
                "and beyond the matrix size, negative ids, dangling / self / U references, 127-300 array items, strings of 32767-70000 bytes, bad "
                "\\u escapes, NUL, empty surface, bad split modes, malformed inline splits, empty / blank / header-only / random-byte matrix, "
                "matrix lines outside the declared size, CRLF, BOM, empty lexicon, no indexed row, random bytes, invalid UTF-8, unbalanced "
                "quotes, 2-300 homographs; totality under a panic hook in a debug-assertion and a release build; inputs that are invalid in a "
                "way the statement names must be rejected. (c) every accepted dictionary is loaded and texts made of its keys are analysed in "
                "modes A/B/C under the bounds hooks and the partition oracle. distinct_nontrivial = distinct mutated inputs that were handled "
                "correctly + dictionaries whose sink offsets were enumerated. Call sequences: documented; error of resolve() ignored; compile() without resolve(); without read_conn(); error of read_conn() ignored; lexicon in two parts with resolve() between them (with and without a second resolve()); a second, smaller read_conn() whose text breaks off - never a panic, and success only with a valid dictionary. The builders behind sudachipy.build_system_dic / build_user_dic and `sudachi build` are run with the output file cut off after L bytes by RLIMIT_FSIZE (L sampled incl. the ends and the 8 KiB buffer boundaries): success with a shorter file is a sink failure reported as success. Descriptions of 0/255/256/257/1000 bytes and multi-byte ones around 256 bytes / characters / UTF-16 units: success must give a loadable dictionary that stores the same description. Reference fields also take values of 2^28 and more (up to 2^32, with and without the U prefix), and lexicons whose only inline references stand in the B-unit column of a row with splitting mode B.",
        "assumptions": COMMON_ASSUMPTIONS + ["known findings D9 (split units not covering the key), D18 (user-dictionary dic_form) and D24 (stack overflow "
                                             "for a 32,767-byte key; runs alone in its own process) are exercised only by labelled probes",
                                             "mutations that disturb split references are analysed in mode C only"],
    },
    "C18": lambda tier: {
        "level": "exploration",
        "stages": [
            main_stage(60, 300, tier, death_is_violation=True),
            main_stage(60, 300, tier, build="tsan", name="tsan", death_is_violation=False),
            main_stage(60, 300, tier, build="asan", name="asan", death_is_violation=True),
            dict(main_stage(90, 300, tier, name="pythreads", death_is_violation=False, shards=8), needs=["py", "cli"], extra=["--prop-alias", "C19"]),
        ] + ([] if tier == "quick" else [
            dict(main_stage(60, 1200, tier, build="miri", name="miri", death_is_violation=False), shards=16),
        ]),
        "require": ["repetitions_with_debug_tokenizers_in_threads", "debug_tokenizer_results_compared", "repetitions_with_hundreds_of_compounds", "repetitions", "concurrent_results_compared_with_baseline", "overlapping_operation_pairs_between_threads",
                    "tsan.concurrent_results_compared_with_baseline", "tsan.overlapping_operation_pairs_between_threads",
                    "asan.concurrent_results_compared_with_baseline", "pythreads.py_thread_results"],
        "rule": "each repetition: a fresh world with EVERY plugin type (default input text, prolonged marks, yomigana, MeCab + regex + simple OOV, "
                "numeric + katakana joining, inhibited connection) and two user dictionaries, loaded aligned or from an odd address; N in "
                "{2,4,8,16} threads, each with its own tokenizers (one per mode x field subset out of 6 subsets) over the one shared "
                "dictionary, start together behind a barrier (lazily initialised tables are first touched concurrently; the single-threaded "
                "baseline is computed AFTER the concurrent phase) and run 200 operations each over a shared pool of 60 texts; hook H1 makes "
                "every 64th matrix / trie access yield. Monitors: every concurrent result == single-threaded result for the same (text, mode, "
                "subset); digest of the dictionary (all matrix cells, all word parameters, POS list, all word infos) before == after; panic "
                "in any thread; ThreadSanitizer build of the same workload (happens-before race detection, -Zbuild-std); AddressSanitizer build (a string "
                "freed by one thread while another still borrows it is a heap-use-after-free there); thorough: Miri with "
                "16 scheduler seeds (data-race detection, 2-3 threads). Python half: 8 threading.Thread workers over tokenizers created from "
                "ONE Dictionary, 300 analyses each, results vs a sequential pass, interpreter exit status (no race detector applies to "
                "CPython). Evidence of interleaving: operations are stamped from one global atomic clock; overlapping_operation_pairs counts "
                "cross-thread overlaps. distinct_nontrivial = distinct thread-order signatures of the operation logs. Thread counts 2, 4, 8, 16, 40 and 72.. Every sixth repetition has 1,500 lemmas + 1,500 inflected words referring to them as dictionary form, and texts made of the inflected words Every third repetition has 400 compounds with declared units and texts made of them, analysed in modes A and B only, so that different compounds are split for the first time by different threads at the same moment and again later. Every fourth repetition also runs four threads with debug tokenizers (standard output pointed at /dev/null) next to a control thread with an ordinary tokenizer on the same dictionary: 'threads_blocked' is reported only when the debug threads complete nothing for 20 s while the control thread completes at least 500 analyses in that time (a stalled machine cannot produce that); otherwise their results are compared with single-threaded ones.",
        "assumptions": COMMON_ASSUMPTIONS + ["absence of a TSan / Miri report covers only the schedules and accesses executed",
                                             "Miri runs without the aliasing models (DESIGN.md 2.2)"],
    },
    "C19": lambda tier: {
        "level": "exploration",
        "stages": [dict(main_stage(90, 400, tier, death_is_violation=False), needs=["py", "cli"])],
        "require": ["scenarios", "py_cases", "py_fields_compared", "py_splits_compared", "py_lookups", "py_history_probes", "py_py_builds", "py_override_checks", "cli_lines_whose_content_ends_with_cr",
                    "cli_runs_compared", "cli_files_with_blank_lines"],
        "rule": "per scenario a generated world (dictionaries + user dictionaries + definition files + sudachi.json with a random plugin stack) "
                "is written to a directory; the expected results are computed in-process with the core library; (Python) the freshly built "
                "sudachipy extension analyses 40 (text, mode) cases: surface, raw_surface, part_of_speech(+id), dictionary/normalized/reading "
                "form, word_id, dictionary_id, is_oov, synonym_group_ids, begin/end in code points, text[begin:end]==raw_surface, "
                "split(A/B, add_single=False), Dictionary.lookup; then 6 random API histories of 25 operations (per-call mode override, "
                "over-long input with override, out= reuse for tokenize / split / lookup, stale Morpheme objects, field subsets, projections) "
                "each followed by a probe compared with a fresh tokenizer; the driver's exit status is the crash monitor (Python exceptions "
                "incl. PanicException are not crashes). (CLI) 3 generated multi-line files per scenario (blank lines, CRLF, no final "
                "newline, several sentences per line) x mode x {default, -a, -w} x --split-sentences {yes, no, only} x {stdin, file} x "
                "{stdout, -o}: output must equal the harness's rendering of the library result per line / sentence. "
                "distinct_nontrivial = distinct scenarios / files that matched completely. build_system_dic / build_user_dic (paths and bytes, lexicon split over files in non-alphabetical command order) must write the library's bytes (time stamp excluded); with an explicit projection the surface() of split results must equal the projected field; CLI input lines whose content ends with or contains a carriage return.. Dictionary.lookup(\"\", out=list) must leave the list empty; a tokenizer created with a field request and called with a per-call mode override must give the boundaries of a tokenizer created in that mode with the same request, and its next call without override those of a new tokenizer; an exception in a worker thread is a mismatch",
        "assumptions": COMMON_ASSUMPTIONS + ["the column format is the one documented in README (surface TAB pos TAB normalized [TAB dictionary "
                                             "TAB reading TAB dictionary-id TAB synonyms [TAB (OOV)]], EOS per sentence)",
                                             "Morpheme.split is compared with add_single=False"],
    },
}


# The quick tier of the cheap monitors is scaled up so that every quick check does some tens of seconds of
# 16-core work (scenario counts in the harness are multiplied; the time budget still bounds the run).
QUICK_SCALE = {"C02": 8, "C04": 2, "C05": 8, "C07": 8, "C08": 6, "C09": 8, "C10": 6, "C11": 6, "C12": 8, "C13": 4,
               "C14": 8, "C15": 8, "C16": 6, "C17": 4, "C19": 3, "C20": 4}


# added in round eleven (what the workloads cover in addition to the rule texts above)
RULE_ADD = {
    "C02": "Regex providers with a top-level alternation and maxLength up to 2^64-1; user-dictionary rows with an estimated cost (-32768) are compared with the loaded word parameters; no dictionary candidate may end before a character that cannot start a word.",
    "C03": "Regex providers with maxLength 65535 and 2^64-1.",
    "C04": "Escapes with upper- and lower-case hex digits; every fourth stack carries the version-2 magic number (another fourth: version-1 layout).",
    "C06": "Call sequences 9-11: compile() again after an earlier compile() and more rows, compile() again after three failing sinks (bytes equal to the plain compilation), read_lexicon() that fails on its last line after resolve().",
    "C07": "rewrite.def entries with '#' inside keys and values.",
    "C08": "A copy (Clone) of every built buffer answers the same queries.",
    "C09": "In every third world the mode-C tokenizer went through set_mode sequences before its results are split on demand.",
    "C10": "Two more operations: analyse / look up into the shared split list (which shares the text of the list that was split); afterwards every kept list is compared with what it reported when it was collected (kinds kept_result_changed / kept_result_panics). The CLI kind cli_rejected_line of C19's driver is judged here too.",
    "C11": "Every third world is written in the formats without synonym ids (system version 1, user version 2, final synonym array cut off). The Python stage also judges narrow fields= requests combined with each of the seven projections.",
    "C13": "Regexes with a top-level alternation (only the first branch is anchored) and maxLength 2^64-1; no dictionary candidate may end before a character that cannot start a word.",
    "C15": "Separators inside the coefficient of a unit: a group of other than three digits after a separator is malformed wherever it stands ('2,30万'); a generator shape writes such coefficients.",
    "C16": "Texts whose only terminators are middle-dot ellipses (three or more '・'), which the converse clause counts as terminators; dictionary words that go on for more than 30 bytes after the terminator they contain.",
    "C19": "Narrow fields= with every projection compared with the all-fields tokenizer; files with a line the library rejects (--split-sentences no): the tool stops there or prints nothing it did not analyse; a kept result is re-read after the list holding its split received another text; a panic of the library's own accessors while the reference values are computed is a violation, not a dead worker.",
}


def plan(prop, tier):
    f = PLANS.get(prop)
    if f is None:
        return None
    pl = f(tier)
    if prop in RULE_ADD:
        pl["rule"] = pl["rule"].rstrip() + " " + RULE_ADD[prop]
    k = QUICK_SCALE.get(prop)
    if tier == "quick" and k:
        for st in pl["stages"]:
            if st["build"] in ("mon", "rel") and st["name"] in ("main", "rel"):
                st["extra"] = list(st.get("extra", [])) + ["--scale", str(k)]
    return pl
