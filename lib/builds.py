"""Builds of the harness / repository binaries used by the stages. Everything is rebuilt from
/repo's current working tree through cargo (path dependency), offline."""
import os
import subprocess

VERIF = os.path.dirname(os.path.dirname(os.path.abspath(__file__)))
# The registered checks always run against /repo. VERIF_REPO=<scratch worktree> is only for trying seeded
# changes without touching /repo (lib/mutest_alt.sh): a copy of the harness is pointed at that tree and all
# build output goes to work/alt.
REPO = os.environ.get("VERIF_REPO", "/repo")
ALT = REPO != "/repo"
WORK = os.path.join(VERIF, "work", "alt") if ALT else os.path.join(VERIF, "work")
HARNESS = os.path.join(VERIF, "harness")
if ALT:
    os.makedirs(WORK, exist_ok=True)
    _alt_h = os.path.join(WORK, "harness")
    subprocess.run(["rsync", "-a", "--delete", "--exclude", "target", HARNESS + "/", _alt_h + "/"], check=True)
    _ct = open(os.path.join(_alt_h, "Cargo.toml")).read().replace('path = "/repo/sudachi"', 'path = "%s/sudachi"' % REPO)
    open(os.path.join(_alt_h, "Cargo.toml"), "w").write(_ct)
    HARNESS = _alt_h
TARGET = "x86_64-unknown-linux-gnu"

_done = {}


def _env(extra=None):
    env = dict(os.environ)
    env["CARGO_NET_OFFLINE"] = "true"
    env.pop("RUSTFLAGS", None)
    if extra:
        env.update(extra)
    return env


def _run(cmd, cwd, env, log_name):
    os.makedirs(os.path.join(WORK, "logs"), exist_ok=True)
    log = os.path.join(WORK, "logs", log_name)
    with open(log, "wb") as f:
        p = subprocess.run(cmd, cwd=cwd, env=env, stdout=f, stderr=subprocess.STDOUT)
    if p.returncode != 0:
        tail = open(log, "rb").read()[-1200:].decode("utf-8", "replace")
        return False, tail
    return True, ""


def binary(build):
    return {
        "mon": os.path.join(WORK, "target", "mon", "vh"),
        "rel": os.path.join(WORK, "target", "rel", "vh"),
        "valgrind": os.path.join(WORK, "target", "rel", "vh"),
        "asan": os.path.join(WORK, "target-asan", TARGET, "rel", "vh"),
        "tsan": os.path.join(WORK, "target-tsan", TARGET, "rel", "vh"),
        "cli": os.path.join(WORK, "target-repo", "release", "sudachi"),
        "py": os.path.join(WORK, "target-repo", "release", "libsudachipy.so"),
        "clidbg": os.path.join(WORK, "target-repo", "debug", "sudachi"),
    }.get(build)


def ensure(build):
    if build in _done:
        return _done[build]
    r = _ensure(build)
    _done[build] = r
    return r


def _ensure(build):
    if build == "mon":
        return _run(["cargo", "build", "--offline", "--profile", "mon", "--target-dir", os.path.join(WORK, "target")],
                    HARNESS, _env(), "build-mon.log")
    if build in ("rel", "valgrind"):
        return _run(["cargo", "build", "--offline", "--profile", "rel", "--target-dir", os.path.join(WORK, "target")],
                    HARNESS, _env(), "build-rel.log")
    if build == "asan":
        return _run(["cargo", "+nightly", "build", "--offline", "--profile", "rel", "--target", TARGET,
                     "--target-dir", os.path.join(WORK, "target-asan")],
                    HARNESS, _env({"RUSTFLAGS": "-Zsanitizer=address -Cforce-frame-pointers=yes"}), "build-asan.log")
    if build == "tsan":
        return _run(["cargo", "+nightly", "build", "--offline", "-Zbuild-std", "--profile", "rel", "--target", TARGET,
                     "--target-dir", os.path.join(WORK, "target-tsan")],
                    HARNESS, _env({"RUSTFLAGS": "-Zsanitizer=thread"}), "build-tsan.log")
    if build == "miri":
        # cargo miri run builds on demand; make sure the interpreter's sysroot exists
        return _run(["cargo", "+nightly", "miri", "setup"], HARNESS, _env(), "build-miri.log")
    if build == "cli":
        return _run(["cargo", "build", "--offline", "--release", "-p", "sudachi-cli",
                     "--target-dir", os.path.join(WORK, "target-repo")], REPO, _env(), "build-cli.log")
    if build == "clidbg":
        # the command-line tool with debug assertions and overflow checks (cargo's dev profile)
        return _run(["cargo", "build", "--offline", "-p", "sudachi-cli",
                     "--target-dir", os.path.join(WORK, "target-repo")], REPO, _env(), "build-clidbg.log")
    if build == "py":
        ok, why = _run(["cargo", "build", "--offline", "--release", "-p", "sudachipy",
                        "--target-dir", os.path.join(WORK, "target-repo")], REPO,
                       _env({"PYO3_PYTHON": "/usr/bin/python3"}), "build-py.log")
        if not ok:
            return ok, why
        # python package = copy of the repository's py_src + the freshly built extension module
        pkg = os.path.join(WORK, "pypkg")
        subprocess.run(["rm", "-rf", pkg])
        subprocess.run(["cp", "-r", os.path.join(REPO, "python", "py_src"), pkg])
        subprocess.run(["cp", binary("py"), os.path.join(pkg, "sudachipy", "sudachipy.cpython-311-x86_64-linux-gnu.so")])
        return True, ""
    return False, "unknown build " + build


def command(st, prop, tier, seed, shard, nshards, out):
    args = [prop, "--tier", tier, "--seed", str(seed), "--shard", str(shard), "--nshards", str(nshards),
            "--stage", st["name"], "--out", out, "--budget", str(st.get("budget", 60))] + st.get("extra", [])
    build = st["build"]
    scratch = os.path.join(WORK, "scratch")
    if build == "miri":
        flags = "-Zmiri-disable-isolation -Zmiri-disable-stacked-borrows -Zmiri-ignore-leaks -Zmiri-seed=%d " % shard + st.get("miriflags", "")
        env = _env({"MIRIFLAGS": flags, "VH_REPO": REPO})
        cmd = ["cargo", "+nightly", "miri", "run", "--offline", "--target-dir", os.path.join(WORK, "target-miri"), "--"] + args
        return cmd, env | {"VH_CWD": HARNESS}
    env = _env({"VH_REPO": REPO, "VH_SCRATCH": scratch, "VH_CLI": binary("clidbg" if st.get("cli_debug") else "cli"), "VH_PYPKG": os.path.join(WORK, "pypkg"),
                "VH_PYDRIVER": os.path.join(VERIF, "py", "drive.py")})
    if build == "asan":
        env["ASAN_OPTIONS"] = "detect_leaks=0:halt_on_error=1:abort_on_error=0:exitcode=98"
    if build == "tsan":
        env["TSAN_OPTIONS"] = "halt_on_error=1:exitcode=66"
    if build == "valgrind":
        cmd = ["valgrind", "--quiet", "--error-exitcode=99", "--leak-check=no", binary("rel")] + args
        return cmd, env
    return [binary(build)] + args, env


def is_sanitizer_report(st, rc, tail):
    b = st["build"]
    if b == "asan":
        return rc == 98 or "AddressSanitizer" in tail
    if b == "tsan":
        return rc == 66 or "ThreadSanitizer" in tail
    if b == "miri":
        return "Undefined Behavior" in tail or "data race" in tail.lower()
    if b == "valgrind":
        return rc == 99
    return False


def setup():
    ok_all = True
    for b in ["mon", "rel", "tsan", "asan", "cli", "clidbg", "py"]:
        ok, why = ensure(b)
        print("setup: build %s: %s" % (b, "ok" if ok else "FAILED\n" + why))
        ok_all = ok_all and ok
    return 0 if ok_all else 1
