#!/usr/bin/env python3
"""Regenerates DESIGN.md section 12.6 (seeded changes) from seeded/*/meta.json."""
import json, glob
D = "/verif/DESIGN.md"
s = open(D).read()
marker = "\n### 12.6 "
if marker in s:
    s = s[:s.index(marker)]
rows = []
det = miss = 0
for f in sorted(glob.glob('/verif/seeded/C*/meta.json')):
    m = json.load(open(f))
    d = m['detected_by_quick_check']
    det += d
    miss += (not d)
    fv = m['first_violation_reported'].strip()
    kind = fv.split(' site=')[0].replace('kind=', '') if fv else ''
    summ = (m['summary'] or '').replace('|', '/').replace('\n', ' ')
    summ = summ[:170] + ('…' if len(summ) > 170 else '')
    rows.append("| %s | %s | %s | %s |" % (m['id'], summ, "detected" if d else "NOT detected — see notes in meta.json", kind))
txt = """
### 12.6 Seeded changes and which check catches them

Eleven rounds of fresh sub-agents: m1/m2 against the tree with only the hooks; then, against the tree with the repairs
made so far, m3/m4 (20 properties), two more for 14 properties, three times two more for all 20, three more
for all 20 and three times two more for all 20 (19 or 21 changes per property, 408 in all). From the second round on the agents were told one-line summaries
of the changes already known for the property and asked for other sites, mechanisms and clauses (in the last rounds also:
other entry points, fast paths, rarely used options, boundary sizes, error paths, state kept between calls, caches,
Python / CLI layers, the last element of structures). Each agent saw only the property text and its own scratch worktree,
never /verif. Every change was confirmed there before it was kept (`seeded/_confirm/*.log`: repository suite 255 passed /
0 failed with the change, demonstration fails with it and passes without it; demonstrations that are scripts rather than
Rust tests were run by hand). Seven m1/m2 patches had to be re-applied by hand after repairs touched the same lines
(`patch.orig.diff` is kept next to `patch.diff`).

**What these rounds say about reach.** The share of new changes that the checks missed at the first attempt did not go
down as the monitors grew: 18 of 40 (round four), 11 of 40 (round five), about 17 of 40 (round six: 3 missed, 14 gaps
closed after reading the descriptions but before the first run), 24 of 60 (round seven, first run made before any
extension), about 19 of 40 (round eight: 8 missed, 11 gaps closed after reading the descriptions but before the first run), 15 of 40 (round nine,
first run made before any extension), 19 of 40 (round eleven, first run made before any extension; one of them inconclusive, not missed: the
library's own accessor panicked inside the C19 worker). Each miss had the same cause: the workload did not drive the code concerned - another entry point (command
line, Python binding, `ConfigBuilder`, file-based loading, the stateless tokenizer, the older split API, a named pipe),
a rarely used option (debug mode, `enableNormalize: false`, reversed plugin order, no fallback provider, projections with
a handler), a size nobody generated (exactly 65,535 characters, 15 user dictionaries, 256 homographs, 2^20 trie units,
1,024 dictionary forms, 33 threads, a compound with one unit, a lookup text beyond 65,535 bytes), an older file format
(user dictionaries of versions 1 and 2), a fault nobody injected (an analysis that fails after its path was found, a
sink that takes a few bytes per call) or an API sequence (resolve, then read more rows; a second `read_conn`; a second
`compile`; analysing into a list that was the target of a split; round eleven: a second `compile()` after a failed one, a
`read_lexicon()` that fails after `resolve()`, `set_mode` before an on-demand split, a copy of a built buffer, `#` inside a
`rewrite.def` entry, upper-case hex escapes, regexes with a top-level alternation, dictionaries in the formats without synonym
ids, a narrow `fields=` with a projection, an input line the command-line tool must refuse, texts whose only terminator is
`・・・`). The workloads were extended every time (see the `notes` of each
`seeded/<id>/meta.json`) and all of these are detected now, but the honest expectation for a change nobody has seeded yet
is a detection rate of roughly 60 %%, not 98 %%. One miss of round six was a defect of the harness itself: each worker listed
only its first 40 violation records and records labelled as known finding D1 filled that list (labelled and unlabelled
records now have separate quotas). Side remarks of the agents about the unchanged tree led to defects D25 - D30 of 12.3; the workload written for C10-m16
(round eight) found D32 on the unchanged tree at its first run. Round eleven gave D33 - D36: two from side remarks of the agents
(`2,30万`; a huge regex `maxLength`), one from a remark that had been filed under "not claimed" until a second agent made it
again (D34, shared text of split lists), one from the workload written for C11-m19 (D36).
One change of round nine (C18-m18) makes threads block each other for good; a check that only had a watchdog would have
ended "inconclusive", so C18 got a progress monitor with a control thread (12.4, bounded progress).

Result of the sweeps (`lib/sweep_seeded.sh` applies to /repo and reverts; `lib/sweep_alt.sh` uses a scratch worktree
through `VERIF_REPO`, so that long runs against /repo are not disturbed): **%d of %d are detected by the quick check of
the property they were written for.** The other eleven:

* C14-m20 - a malformed grouping joined up to the digit before its end (`1,00円` -> `1,0` = 100): the clauses of C14 hold
  literally, the wrong value is C15's clause; detected by `./check C15`.
* C14-m21 - a dictionary word that begins with katakana is swallowed into a katakana join: every clause of the statement
  holds literally; which neighbours a plugin may merge is not stated: not claimed.

* C02-m21 - a stale provider buffer that only matters for regex words of 64 and more characters next to dictionary words
  of that length; C02's texts have none; detected by `./check C13` (`oov_candidates`).
* C15-m19 - the default of an omitted `enableNormalize` key; the statement speaks about normalisation being enabled, every
  generated configuration spells the key out: not claimed.
* C03-m20 - `try_borrow_mut` replaced by `borrow_mut` in `collect_results`; harmless since repair 3d6ce48 (the list
  detaches from a shared text first; its demonstration fails only on the tree before that repair).

* C03-m2 and C10-m1 - the same dropped `clear()`; harmless since repair 36f4a80 (detected before that repair).
* C11-m9 - a derived `Default` for the field request; harmless since repair ad6f17a (its demonstration passes with the
  change on the repaired tree).
* C15-m4 - a decimal point directly after a unit (`1万.5` joined as 10000.5), and C15-m11 - a decimal coefficient of a unit
  inside a later group (`1万1.5千`): the statement does not define these shapes, so the evaluator calls them "unspecified"
  instead of demanding more than the property states.
* C12-m6 - the compiler accepts a reference one past the last word; C12 generates only valid references; detected by
  `./check C06`.

After the generator changes of round eleven (estimated-cost rows, regex choices, escapes) a sample of older changes was run
again instead of all 368 (`work/sweep-alt.log`): C01-m6, C01-m10, C02-m5, C02-m8, C02-m12, C02-m17, C04-m7, C04-m11, C04-m15,
C05-m3, C05-m8, C05-m16, C06-m9, C07-m9, C08-m9, C12-m9, C12-m14, C12-m17, C17-m7, C18-m7, C20-m5, C20-m11: all 22 are still
detected by the quick check of their property.

Changes in python/src or sudachi-cli/src are detected by the property's own check since the Rust-level monitors of C01,
C03, C04, C08, C09, C10, C11, C12 and C18 have a stage that runs C19's driver and keeps the mismatch kinds that speak
about that property.

Monitors that were strengthened because a seeded change was missed or inconclusive at first: C01 (compounds whose last
unit is longer than declared; accessor / split panics count; marks that an earlier plugin resizes), C18 (twin load as
reference; contended first use; many distinct expanding characters + ASan stage; pre-tokenizer threads with a stand-in
`tokenizers` module), C11 (long-lived tokenizers, request kept between analyses), C14 (katakana words with a headword of
another length; panics that occur only with the plugins), C10 (split list attached to a stale narrow-request list),
C13 (exact-length long regex matches; a class table of the provider's own), C02 (OOV nodes against the providers asked
directly), C14 (value of a lone rewritten numeral), C12 (version-1 user dictionaries), C10 (failures after the path was
found), C18 (hundreds of compounds first split under contention), C01 (single-unit compounds through the older split API); after round nine: C04 (exactly 127 homographs, version-1
stacks), C05 (output path that already holds a file), C06 (references beyond 2^28, inline references in one column only),
C07 (KANJI of other byte widths), C10 (provider errors and failing input-text plugins), C11 (lookup into a used list),
C12 (missing listed file, relative names), C13 (stacks without the simple provider), C14 (unreadable numerals), C15
(numeral entries with units), C16 (marks that are no brackets), C18 (debug tokenizers in threads); after round eleven: C04 (upper-case hex escapes,
version-2 stacks), C06 (second compile, failing read after resolve), C07 (`#` inside entries), C08 (copy of a built buffer), C09
(`set_mode` before on-demand splits), C10 / C19 (rejected line in a CLI file; kept results after reuse of a list that shares
their text), C11 (formats without synonym ids; narrow `fields=` with projections), C13 / C02 (regex alternations, huge
`maxLength`, dictionary candidates against word starts), C15 (separators inside a unit's coefficient), C16 (middle-dot
ellipses in the converse clause, long words after a terminator), C19 (accessor panics while reference values are computed),
shared generator (user-dictionary rows with cost -32768: the loader's cost estimate, never executed before - found with
`lib/coverage.sh`). Monitors extended after *reading* a change description but before running it:
C02 (OOV parameters vs definitions, empty input), C04/C05 (keys starting with `#`, other negative left ids), C06 (call
sequences, user dictionaries, must-accept ids, 127/128/129-unit strings), C08 (rejected edit batches), C09 (modes
reached through set_subset + set_mode), C11 (long strings), C14 (comparison with the mode-C analysis, degenerate merges),
C15 (decimal coefficients), C16 (short words ending with a terminator, window larger than default, や/の), C19
(projections, numerals for -w, empty input into a reused list), C20 (POS arity).

| change | what it does | quick check of its property | first violation kind |
|---|---|---|---|
""" % (det, det + miss) + "\n".join(rows) + "\n"
open(D, 'w').write(s + txt)
print(det, miss)
