#!/usr/bin/env python3
"""Regenerates DESIGN.md section 12.6 (seeded changes) from seeded/*/meta.json."""
import json, glob
D = "/verif/DESIGN.md"
s = open(D).read()
marker = "\n### 12.6 "
if marker in s:
    s = s[:s.index(marker)]
rows = []
det = miss = 0
for f in sorted(glob.glob('/verif/seeded/C*/meta.json')):
    m = json.load(open(f))
    d = m['detected_by_quick_check']
    det += d
    miss += (not d)
    fv = m['first_violation_reported'].strip()
    kind = fv.split(' site=')[0].replace('kind=', '') if fv else ''
    summ = (m['summary'] or '').replace('|', '/').replace('\n', ' ')
    summ = summ[:170] + ('…' if len(summ) > 170 else '')
    rows.append("| %s | %s | %s | %s |" % (m['id'], summ, "detected" if d else "NOT detected — see notes in meta.json", kind))
txt = """
### 12.6 Seeded changes and which check catches them

Two rounds of fresh sub-agents (m1/m2: against the tree with only the hooks; m3/m4: against the tree with all repairs,
told one-line summaries of m1/m2 so that they would pick other sites). Each agent saw only the property text and its own
scratch worktree, never /verif. Every change was confirmed there before it was kept (`seeded/_confirm/*.log`: repository
suite 255 passed / 0 failed with the change, demonstration fails with it and passes without it). Seven m1/m2 patches had
to be re-applied by hand after repairs touched the same lines (`patch.orig.diff` is kept next to `patch.diff`).

Result of `lib/sweep_seeded.sh` on the current tree (apply to /repo, `./check <Cxx> quick`, revert): **%d of %d detected**.
Not detected: C03-m2 and C10-m1 (the same dropped `clear()`, harmless since repair 36f4a80 — detected before that
repair), and C15-m4 (a decimal point directly after a unit, `1万.5` → 10000.5: the statement does not say that this
shape is malformed and 10000.5 is its natural value, so the evaluator calls it "unspecified" instead of demanding more
than the property states).

Monitors that were strengthened because a seeded change was missed or was inconclusive at first: C01 (compounds whose
last unit is longer than declared; accessor / split panics count; marks that an earlier plugin resizes), C18 (twin load
as reference; contended first use), C11 (long-lived tokenizers, request kept between analyses), C14 (katakana words with
a headword of another length; panics that occur only with the plugins). Monitors extended after *reading* a wave-3
change description but before running it: C06 (call sequences, user dictionaries, must-accept ids), C09 (modes reached
through set_subset + set_mode), C11 (long strings), C14 (comparison with the mode-C analysis), C15 (decimal
coefficients), C16 (short words ending with a terminator), C19 (projections, numerals for -w), C20 (POS arity).

| change | what it does | quick check of its property | first violation kind |
|---|---|---|---|
""" % (det, det + miss) + "\n".join(rows) + "\n"
open(D, 'w').write(s + txt)
print(det, miss)
