#!/usr/bin/env python3
"""Regenerates DESIGN.md section 12.6 (seeded changes) from seeded/*/meta.json."""
import json, glob
D = "/verif/DESIGN.md"
s = open(D).read()
marker = "\n### 12.6 "
if marker in s:
    s = s[:s.index(marker)]
rows = []
det = miss = 0
for f in sorted(glob.glob('/verif/seeded/C*/meta.json')):
    m = json.load(open(f))
    d = m['detected_by_quick_check']
    det += d
    miss += (not d)
    fv = m['first_violation_reported'].strip()
    kind = fv.split(' site=')[0].replace('kind=', '') if fv else ''
    summ = (m['summary'] or '').replace('|', '/').replace('\n', ' ')
    summ = summ[:170] + ('…' if len(summ) > 170 else '')
    rows.append("| %s | %s | %s | %s |" % (m['id'], summ, "detected" if d else "NOT detected — see notes in meta.json", kind))
txt = """
### 12.6 Seeded changes and which check catches them

Six rounds of fresh sub-agents: m1/m2 against the tree with only the hooks; then, against the tree with the repairs
made so far, m3/m4 (20 properties), two more for 14 properties, and three times two more for all 20 (10 or 12 changes
per property, 228 in all). From the second round on the agents were told one-line summaries of the changes already known
for the property and asked for other sites, mechanisms and clauses (in the last two rounds also: other entry points,
fast paths, rarely used options, boundary sizes, error paths, state kept between calls, caches, Python / CLI layers).
Each agent saw only the property text and its own scratch worktree, never /verif. Every change was confirmed there
before it was kept (`seeded/_confirm/*.log`: repository suite 255 passed / 0 failed with the change, demonstration fails
with it and passes without it; demonstrations that are scripts rather than Rust tests were run by hand). Seven m1/m2
patches had to be re-applied by hand after repairs touched the same lines (`patch.orig.diff` is kept next to
`patch.diff`).

The last three rounds are the most informative ones about reach. 18 of the 40 changes of the fourth round and 11 of the
40 of the fifth were missed at the first attempt, each because the workload never drove the code concerned: no input
beyond the size limits in C01, no debug-mode tokenizer and no input-deleting configuration in C03, no double array
above 2^20 units, no key with more than 127 entries in C04, no command-line / Python build in C05, a constant
description in C06, no split-result offsets in C08, no path-rewrite plugins and no non-empty output list in C09,
per-token evaluation of malformed numerals in C15, no user dictionaries in C16, no path-based loader in C17, at most 16
threads in C18, no projection check on split results and no carriage return inside a line in C19, no cost check after
path rewriting in C02 (fourth round); no sparse matrix text in C05, no analysis between field request and mode change in
C09, no field subset and no file-based load in C12, a unit after the point called "unspecified" in C15, range ends at
U+D7FF / U+10FFFF avoided in C17, no dictionary with thousands of dictionary forms and silently dying Python threads in
C18, no mode override on a tokenizer with a field request in C19, Python-only changes invisible to the Rust-level
monitors of C04 and C10 (fifth round). In the sixth round the descriptions were read before the first run and 14 gaps of
the same kind were closed right away (see the notes "Extended after reading the description"); of the rest, three were
missed at the first attempt: C03-m12 (no stack of 15 user dictionaries with high word numbers), C11-m10 (Python-only) and
C20-m10 - the latter because of a defect of the harness itself: each worker listed only its first 40 violation records
and records labelled as known finding D1 filled that list. Labelled and unlabelled records now have separate quotas.
The workloads were extended each time (see the `notes` of each `seeded/<id>/meta.json`). Side remarks of the agents
about the unchanged tree led to defects D25 - D30 of 12.3. A monitor only decides what its workload reaches: the same
will be true for changes nobody has seeded yet.

Result of the sweeps (`lib/sweep_seeded.sh` applies to /repo and reverts; `lib/sweep_alt.sh` uses a scratch worktree
through `VERIF_REPO`, so that long runs against /repo are not disturbed): **%d of %d are detected by the quick check of
the property they were written for.** The other five:

* C03-m2 and C10-m1 - the same dropped `clear()`; harmless since repair 36f4a80 (detected before that repair).
* C11-m9 - a derived `Default` for the field request; harmless since repair ad6f17a (its demonstration passes with the
  change on the repaired tree).
* C15-m4 - a decimal point directly after a unit (`1万.5` joined as 10000.5): the statement does not say that this shape
  is malformed and 10000.5 is its natural value, so the evaluator calls it "unspecified" instead of demanding more than
  the property states.
* C12-m6 - the compiler accepts a reference one past the last word; C12 generates only valid references; detected by
  `./check C06`.

Python-only changes are detected by the property's own check since the Rust-level monitors of C04, C09, C10, C11, C12
and C18 have a stage that runs the Python driver and keeps the mismatch kinds that speak about that property.

Monitors that were strengthened because a seeded change was missed or inconclusive at first: C01 (compounds whose last
unit is longer than declared; accessor / split panics count; marks that an earlier plugin resizes), C18 (twin load as
reference; contended first use; many distinct expanding characters + ASan stage; pre-tokenizer threads with a stand-in
`tokenizers` module), C11 (long-lived tokenizers, request kept between analyses), C14 (katakana words with a headword of
another length; panics that occur only with the plugins), C10 (split list attached to a stale narrow-request list),
C13 (exact-length long regex matches). Monitors extended after *reading* a change description but before running it:
C02 (OOV parameters vs definitions, empty input), C04/C05 (keys starting with `#`, other negative left ids), C06 (call
sequences, user dictionaries, must-accept ids, 127/128/129-unit strings), C08 (rejected edit batches), C09 (modes
reached through set_subset + set_mode), C11 (long strings), C14 (comparison with the mode-C analysis, degenerate merges),
C15 (decimal coefficients), C16 (short words ending with a terminator, window larger than default, や/の), C19
(projections, numerals for -w, empty input into a reused list), C20 (POS arity).

| change | what it does | quick check of its property | first violation kind |
|---|---|---|---|
""" % (det, det + miss) + "\n".join(rows) + "\n"
open(D, 'w').write(s + txt)
print(det, miss)
