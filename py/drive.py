#!/usr/bin/env python3
"""Python-binding monitor of C19 (and the Python half of C18).

  drive.py <scenario_dir> <pkg_dir> <seed> [threads]

Reads <scenario_dir>/cases.jsonl written by the Rust harness (expected results computed by the core
library in-process), drives the sudachipy extension built from /repo's working tree and prints one
JSON object with what it compared and every mismatch. A Python exception raised by the binding is
not a crash; the exit status of this process is the crash monitor."""
import json
import os
import random
import sys
import threading


def ensure_stub(sdir):
    """The HuggingFace `tokenizers` package is not available offline: the two names the pre-tokenizer binding needs are
    provided by a stand-in (custom(obj) returns obj, whose __call__(index, normalized_string) HuggingFace would invoke)."""
    stub = os.path.join(sdir, "_stub", "tokenizers")
    os.makedirs(stub, exist_ok=True)
    with open(os.path.join(stub, "__init__.py"), "w") as f:
        f.write("class NormalizedString:\n    def __init__(self, s):\n        self.s = s\n    def __str__(self):\n        return self.s\n"
                "    def slice(self, sl):\n        return NormalizedString(self.s[sl])\n")
    with open(os.path.join(stub, "pre_tokenizers.py"), "w") as f:
        f.write("class PreTokenizer:\n    @staticmethod\n    def custom(obj):\n        return obj\n")
    if os.path.join(sdir, "_stub") not in sys.path:
        sys.path.insert(0, os.path.join(sdir, "_stub"))


def main():
    sdir, pkg, seed = sys.argv[1], sys.argv[2], int(sys.argv[3])
    n_threads = int(sys.argv[4]) if len(sys.argv) > 4 else 0
    sys.path.insert(0, pkg)
    import sudachipy
    from sudachipy import Dictionary, SplitMode, MorphemeList

    import warnings
    warnings.simplefilter("ignore")
    modes = {"A": SplitMode.A, "B": SplitMode.B, "C": SplitMode.C}
    d = Dictionary(config_path=os.path.join(sdir, "sudachi.json"), resource_dir=sdir)
    cases = [json.loads(l) for l in open(os.path.join(sdir, "cases.jsonl"), encoding="utf-8")]
    out = {"cases": 0, "morphemes": 0, "fields_compared": 0, "splits_compared": 0, "lookups": 0, "history_ops": 0,
           "history_probes": 0, "python_exceptions": 0, "thread_results": 0, "mismatches": []}

    def mismatch(kind, msg, case):
        if len(out["mismatches"]) < 20:
            out["mismatches"].append({"kind": kind, "msg": msg, "case": case})

    def view(m):
        return {
            "surface": m.surface(), "raw_surface": m.raw_surface(), "pos": list(m.part_of_speech()),
            "pos_id": m.part_of_speech_id(), "dictionary_form": m.dictionary_form(), "normalized_form": m.normalized_form(),
            "reading_form": m.reading_form(), "word_id": m.word_id(), "dictionary_id": m.dictionary_id(), "is_oov": m.is_oov(),
            "synonym_group_ids": list(m.synonym_group_ids()), "begin": m.begin(), "end": m.end(),
        }

    cfg = json.load(open(os.path.join(sdir, "sudachi.json"), encoding="utf-8"))
    dict_projection = cfg.get("projection", "surface")
    simple_proj = {"surface": "raw_surface", "normalized": "normalized_form", "reading": "reading_form", "dictionary": "dictionary_form"}
    out["projection_checks"] = 0
    toks = {k: d.create(mode=v) for k, v in modes.items()}
    ptoks = {(k, p): d.create(mode=v, projection=p) for k, v in modes.items() for p in simple_proj}
    case_split_out = MorphemeList.empty(d)
    for case in cases:
        if case.get("kind") == "lookup":
            got = sorted(m.word_id() for m in d.lookup(case["surface"]))
            out["lookups"] += 1
            if got != sorted(case["word_ids"]):
                mismatch("lookup", "Dictionary.lookup(%r) = %r, expected %r" % (case["surface"], got, case["word_ids"]), case)
            continue
        text, mode = case["text"], case["mode"]
        try:
            ms = toks[mode].tokenize(text)
        except Exception as e:  # noqa
            out["python_exceptions"] += 1
            if case["expected"] is not None:
                mismatch("exception", "tokenize raised %r but the library succeeds" % (e,), {"text": text, "mode": mode})
            continue
        out["cases"] += 1
        if case["expected"] is None:
            mismatch("no_exception", "tokenize succeeded but the library reports an error", {"text": text, "mode": mode})
            continue
        exp = case["expected"]
        if len(ms) != len(exp):
            mismatch("length", "%d morphemes, expected %d" % (len(ms), len(exp)), {"text": text, "mode": mode})
            continue
        # the list object itself
        out["list_api_checks"] = out.get("list_api_checks", 0) + 1
        try:
            problems = []
            if ms.size() != len(exp) or bool(ms) != (len(exp) > 0):
                problems.append("size()=%r bool=%r for %d morphemes" % (ms.size(), bool(ms), len(exp)))
            if str(ms) != " ".join(e["raw_surface"] for e in exp):
                problems.append("str(list)=%r" % str(ms))
            if [m.raw_surface() for m in ms] != [e["raw_surface"] for e in exp]:
                problems.append("iteration gives %r" % [m.raw_surface() for m in ms][:6])
            if len(exp):
                if ms[-1].raw_surface() != exp[-1]["raw_surface"] or ms[len(exp) - 1].end() != exp[-1]["end"] or ms[-len(exp)].begin() != exp[0]["begin"]:
                    problems.append("negative indexing disagrees with iteration")
            for bad in (len(exp), -len(exp) - 1):
                try:
                    ms[bad]
                    problems.append("index %d of a list of %d does not raise IndexError" % (bad, len(exp)))
                except IndexError:
                    pass
            if case.get("internal_cost") is not None and ms.get_internal_cost() != case["internal_cost"]:
                problems.append("get_internal_cost()=%r, library %r" % (ms.get_internal_cost(), case["internal_cost"]))
            for pr in problems:
                mismatch("list_api", pr, {"text": text, "mode": mode})
        except (KeyboardInterrupt, SystemExit):
            raise
        except BaseException as ex:  # noqa
            out["python_exceptions"] += 1
        for i, (m, e) in enumerate(zip(ms, exp)):
            v = view(m)
            out["morphemes"] += 1
            # surface() follows the projection configured for the dictionary
            e = dict(e)
            e["surface"] = e[simple_proj.get(dict_projection, "raw_surface")]
            for k in ("surface", "raw_surface", "pos", "pos_id", "dictionary_form", "normalized_form", "reading_form", "word_id",
                      "dictionary_id", "is_oov", "synonym_group_ids", "begin", "end"):
                out["fields_compared"] += 1
                if v[k] != e[k]:
                    mismatch("field", "morpheme %d field %s: python %r, library %r" % (i, k, v[k], e[k]), {"text": text, "mode": mode})
            if i == 0:
                # an explicit per-tokenizer projection overrides the dictionary-wide one
                for p, fld in simple_proj.items():
                    try:
                        pm = ptoks[(mode, p)].tokenize(text)
                        got = [x.surface() for x in pm]
                        want = [ee[fld] for ee in exp]
                        out["projection_checks"] += 1
                        if got != want:
                            mismatch("projection", "create(projection=%r) on a dictionary with projection %r: surfaces %r, expected %r" % (p, dict_projection, got[:6], want[:6]),
                                     {"text": text, "mode": mode})
                        # the projection of the tokenizer also governs the morphemes obtained by splitting its results
                        for x in pm:
                            for sm in ("A", "B"):
                                for kw in ({"add_single": False}, {"add_single": True}):
                                    for y in x.split(modes[sm], **kw):
                                        out["projection_checks"] += 1
                                        if y.surface() != getattr(y, fld)():
                                            mismatch("projection", "create(projection=%r) on a dictionary with projection %r: split(%s) of %r gives a morpheme whose surface() is %r but its %s is %r"
                                                     % (p, dict_projection, sm, x.raw_surface(), y.surface(), fld, getattr(y, fld)()), {"text": text, "mode": mode})
                    except (KeyboardInterrupt, SystemExit):
                        raise
                    except BaseException:  # noqa
                        out["python_exceptions"] += 1
            # the raw word info object and the small dunder methods
            try:
                wi = m.get_word_info()
                ew = e["word_info"]
                out["word_infos_compared"] = out.get("word_infos_compared", 0) + 1
                for k in ("surface", "head_word_length", "pos_id", "normalized_form", "dictionary_form_word_id", "dictionary_form", "reading_form"):
                    if getattr(wi, k) != ew[k]:
                        mismatch("field", "morpheme %d get_word_info().%s: python %r, library %r" % (i, k, getattr(wi, k), ew[k]), {"text": text, "mode": mode})
                for k in ("a_unit_split", "b_unit_split", "word_structure", "synonym_group_ids"):
                    if list(getattr(wi, k)) != ew[k]:
                        mismatch("field", "morpheme %d get_word_info().%s: python %r, library %r" % (i, k, list(getattr(wi, k)), ew[k]), {"text": text, "mode": mode})
                if wi.length() != ew["head_word_length"]:
                    mismatch("field", "morpheme %d get_word_info().length()=%r, head_word_length %r" % (i, wi.length(), ew["head_word_length"]), {"text": text, "mode": mode})
                if len(m) != e["end"] - e["begin"] or str(m) != v["surface"]:
                    mismatch("len", "morpheme %d: len()=%r str()=%r for code points %d..%d, surface %r" % (i, len(m), str(m), e["begin"], e["end"], v["surface"]), {"text": text, "mode": mode})
            except (KeyboardInterrupt, SystemExit):
                raise
            except BaseException as ex:  # noqa
                out["python_exceptions"] += 1
            if text[m.begin():m.end()] != m.raw_surface():
                mismatch("code_point_slice", "text[begin:end]=%r but raw_surface=%r" % (text[m.begin():m.end()], m.raw_surface()),
                         {"text": text, "mode": mode})
            for sm in ("A", "B"):
                try:
                    sub = m.split(modes[sm], add_single=False)
                except Exception as ex:  # noqa
                    out["python_exceptions"] += 1
                    continue
                got = [(x.raw_surface(), x.word_id(), x.begin(), x.end()) for x in sub]
                want = [tuple(x) for x in e["split_" + sm]]
                out["splits_compared"] += 1
                if got != want:
                    mismatch("split", "morpheme %d split(%s): python %r, library %r" % (i, sm, got, want), {"text": text, "mode": mode})
                # the same into one list that is reused for every morpheme (it holds the previous split when it comes back)
                try:
                    sub2 = m.split(modes[sm], out=case_split_out, add_single=False)
                    got2 = [(x.raw_surface(), x.word_id(), x.begin(), x.end()) for x in sub2]
                except (KeyboardInterrupt, SystemExit):
                    raise
                except BaseException as ex:  # noqa
                    got2 = repr(ex)
                if got2 != want:
                    mismatch("split", "morpheme %d split(%s, out=<list reused for every morpheme>, add_single=False): python %r, library %r" % (i, sm, got2, want), {"text": text, "mode": mode})

    # ---- a tokenizer created with a field request, analysed with a per-call mode override: same boundaries as a
    # tokenizer created in that mode with the same field request (same fields, so path-rewrite plugins see the same data)
    out["override_checks"] = 0
    rng0 = random.Random(seed + 17)
    field_sets = [set(), {"pos"}, {"surface"}, {"pos", "normalized_form"}, {"surface", "pos", "normalized_form", "dictionary_form"}, {"reading_form", "synonym_group_id"}]
    for case in cases:
        if case.get("kind") == "lookup" or case["expected"] is None or not case["text"]:
            continue
        fs = set(rng0.choice(field_sets))
        if cfg.get("pathRewritePlugin"):
            # boundaries are only determined when the path-rewrite plugins get the fields they read
            fs |= {"surface", "pos", "normalized_form"}
        base_m = rng0.choice("ABC")
        over_m = rng0.choice("ABC")
        try:
            first = d.create(mode=modes[base_m], fields=set(fs))
            a = [(m.begin(), m.end(), m.word_id()) for m in first.tokenize(case["text"], mode=modes[over_m])]
            b = [(m.begin(), m.end(), m.word_id()) for m in d.create(mode=modes[over_m], fields=set(fs)).tokenize(case["text"])]
            a2 = [(m.begin(), m.end(), m.word_id()) for m in first.tokenize(case["text"])]
            b2 = [(m.begin(), m.end(), m.word_id()) for m in d.create(mode=modes[base_m], fields=set(fs)).tokenize(case["text"])]
        except (KeyboardInterrupt, SystemExit):
            raise
        except BaseException:  # noqa
            out["python_exceptions"] += 1
            continue
        out["override_checks"] += 1
        if a != b:
            mismatch("mode_override", "create(mode=%s, fields=%r).tokenize(text, mode=%s) gives %r, a tokenizer created in mode %s with the same fields gives %r" % (base_m, sorted(fs), over_m, a[:8], over_m, b[:8]),
                     {"text": case["text"]})
        elif a2 != b2:
            mismatch("mode_override", "after a call with mode=%s the tokenizer created with mode=%s, fields=%r gives %r, a new one %r" % (over_m, base_m, sorted(fs), a2[:8], b2[:8]), {"text": case["text"]})

    # ---- tokenizers created with a field request that names the split fields: splitting their morphemes gives the declared units
    out["field_split_checks"] = 0
    need = {"surface", "pos", "normalized_form"} if cfg.get("pathRewritePlugin") else set()
    ftoks = {}
    for case in cases:
        if case.get("kind") == "lookup" or case["expected"] is None or case["mode"] != "C":
            continue
        for fs in ({"split_a"}, {"split_b"}, {"split_a", "split_b"}):
            key = tuple(sorted(fs))
            try:
                if key not in ftoks:
                    ftoks[key] = d.create(mode=SplitMode.C, fields=set(fs) | need)
                ms = ftoks[key].tokenize(case["text"])
                if len(ms) != len(case["expected"]):
                    continue
                for m, e in zip(ms, case["expected"]):
                    for sm, fld in (("A", "split_a"), ("B", "split_b")):
                        if fld not in fs:
                            continue
                        got = [(x.word_id(), x.begin(), x.end()) for x in m.split(modes[sm], add_single=False)]
                        want = [(x[1], x[2], x[3]) for x in e["split_" + sm]]
                        out["field_split_checks"] += 1
                        if got != want:
                            mismatch("split", "create(fields=%r): split(%s) of %r gives %r, the library (all fields) %r" % (sorted(fs), sm, m.raw_surface(), got, want), {"text": case["text"]})
            except (KeyboardInterrupt, SystemExit):
                raise
            except BaseException:  # noqa
                out["python_exceptions"] += 1

    # ---- the pre-tokenizer with a handler: the morphemes it is handed carry the requested fields, also with a projection
    out["pretokenizer_field_checks"] = 0
    try:
        ensure_stub(sdir)
        from tokenizers import NormalizedString
        need = {"surface", "pos", "normalized_form"} if cfg.get("pathRewritePlugin") else set()
        seen = []

        def fhandler(index, sentence, morphemes):
            seen.append([(m.raw_surface(), m.reading_form(), m.normalized_form(), list(m.synonym_group_ids()), m.part_of_speech_id()) for m in morphemes])
            return [NormalizedString(m.raw_surface()) for m in morphemes]

        combos = [(None, None), ({"reading_form", "synonym_group_id", "pos", "normalized_form"}, "reading"), (None, "normalized"), ({"reading_form", "normalized_form", "pos", "synonym_group_id"}, None),
                  ({"reading_form", "normalized_form", "pos", "synonym_group_id"}, "dictionary")]
        for fields, proj in combos:
            kw = {"handler": fhandler}
            if fields is not None:
                kw["fields"] = set(fields) | need
            if proj is not None:
                kw["projection"] = proj
            pt = d.pre_tokenizer(SplitMode.C, **kw)
            for case in cases[:12]:
                if case.get("kind") == "lookup" or case["expected"] is None or case["mode"] != "C" or not case["text"]:
                    continue
                del seen[:]
                try:
                    pt(0, NormalizedString(case["text"]))
                except (KeyboardInterrupt, SystemExit):
                    raise
                except BaseException:  # noqa
                    out["python_exceptions"] += 1
                    continue
                if not seen:
                    continue
                want = [(e["raw_surface"], e["reading_form"], e["normalized_form"], e["synonym_group_ids"], e["pos_id"]) for e in case["expected"]]
                out["pretokenizer_field_checks"] += 1
                if seen[0] != want:
                    k = next((i for i, (a, b) in enumerate(zip(seen[0], want)) if a != b), min(len(seen[0]), len(want)))
                    mismatch("pretokenizer_fields", "pre_tokenizer(fields=%r, projection=%r, handler=...): the handler's morpheme %d is %r, the library's %r" % (sorted(fields) if fields else None, proj, k, seen[0][k:k + 1], want[k:k + 1]), {"text": case["text"]})
    except (KeyboardInterrupt, SystemExit):
        raise
    except BaseException as ex:  # noqa
        out["pretokenizer_fields_setup_error"] = repr(ex)

    # ---- a narrow fields= request together with a projection: surface() is what the projection gives with all fields loaded
    out["narrow_fields_projection_checks"] = 0
    try:
        need = {"surface", "pos", "normalized_form"} if cfg.get("pathRewritePlugin") else set()
        all_proj = ["surface", "normalized", "reading", "dictionary", "dictionary_and_surface", "normalized_and_surface", "normalized_nouns"]
        for proj in all_proj:
            full = d.create(mode=SplitMode.C, projection=proj)
            for fields in ({"pos"}, {"reading_form"}, {"surface"}, {"dictionary_form", "synonym_group_id"}):
                narrow = d.create(mode=SplitMode.C, fields=set(fields) | need, projection=proj)
                for case in cases[:8]:
                    if case.get("kind") == "lookup" or case["expected"] is None or not case["text"]:
                        continue
                    try:
                        a = [m.surface() for m in full.tokenize(case["text"])]
                        b = [m.surface() for m in narrow.tokenize(case["text"])]
                    except (KeyboardInterrupt, SystemExit):
                        raise
                    except BaseException:  # noqa
                        out["python_exceptions"] += 1
                        continue
                    out["narrow_fields_projection_checks"] += 1
                    if a != b:
                        k = next((i for i, (x, y) in enumerate(zip(a, b)) if x != y), min(len(a), len(b)))
                        mismatch("projection", "create(fields=%r, projection=%r): surface() of morpheme %d is %r, with all fields loaded %r" % (sorted(set(fields) | need), proj, k, b[k:k + 1], a[k:k + 1]), {"text": case["text"]})
    except (KeyboardInterrupt, SystemExit):
        raise
    except BaseException as ex:  # noqa
        out["narrow_fields_projection_setup_error"] = repr(ex)

    # ---- dictionary building through the Python entry points: same bytes as the library's own compiler
    out["py_builds"] = 0
    bpath = os.path.join(sdir, "build.json")
    if os.path.exists(bpath):
        import sudachipy.sudachipy as native
        b = json.load(open(bpath, encoding="utf-8"))

        def same(a, bb):
            # bytes 8..16 of the header are the creation time
            return len(a) == len(bb) and a[:8] == bb[:8] and a[16:] == bb[16:]

        try:
            outp = os.path.join(sdir, "py_system.dic")
            native.build_system_dic(matrix=os.path.join(sdir, b["matrix"]), lex=[os.path.join(sdir, f) for f in b["lex"]], output=outp, description=b["description"])
            out["py_builds"] += 1
            if not same(open(outp, "rb").read(), open(os.path.join(sdir, b["expect"]), "rb").read()):
                mismatch("build", "build_system_dic from %d lexicon files writes other bytes than the library's compiler" % len(b["lex"]), {"lex": b["lex"]})
            # the same from in-memory data
            native.build_system_dic(matrix=open(os.path.join(sdir, b["matrix"]), "rb").read(), lex=[open(os.path.join(sdir, f), "rb").read() for f in b["lex"]], output=outp, description=b["description"])
            out["py_builds"] += 1
            if not same(open(outp, "rb").read(), open(os.path.join(sdir, b["expect"]), "rb").read()):
                mismatch("build", "build_system_dic from bytes writes other bytes than the library's compiler", {"lex": b["lex"]})
            for u in b.get("users", []):
                outp = os.path.join(sdir, "py_" + u["expect"])
                native.build_user_dic(system=os.path.join(sdir, b["expect"]), lex=[os.path.join(sdir, f) for f in u["lex"]], output=outp, description=u["description"])
                out["py_builds"] += 1
                if not same(open(outp, "rb").read(), open(os.path.join(sdir, u["expect"]), "rb").read()):
                    mismatch("build", "build_user_dic(%s) writes other bytes than the library's compiler" % u["expect"], {"lex": u["lex"]})
        except (KeyboardInterrupt, SystemExit):
            raise
        except BaseException as ex:  # noqa
            mismatch("build", "the library compiles these inputs but the Python entry point raises %r" % (ex,), {})

    # ---- API histories: per-call mode override, out= reuse, stale objects, field subsets, projections
    rng = random.Random(seed)
    texts = [c["text"] for c in cases if c.get("kind") != "lookup" and c["expected"] is not None] or ["あ"]
    all_fields = ["surface", "pos", "normalized_form", "dictionary_form", "reading_form", "word_structure", "split_a", "split_b", "synonym_group_id"]
    projections = ["surface", "normalized", "reading", "dictionary", "dictionary_and_surface", "normalized_and_surface", "normalized_nouns"]
    for h in range(6):
        base_mode = rng.choice("ABC")
        tok = d.create(mode=modes[base_mode])
        reuse = MorphemeList.empty(d)
        split_out = MorphemeList.empty(d)
        other_list = d.create(mode=modes[rng.choice("ABC")]).tokenize(rng.choice(texts))
        stale = []
        for op in range(25):
            out["history_ops"] += 1
            k = rng.randrange(10)
            try:
                if k == 9:
                    # a result that is kept, a list that receives the split of one of its morphemes, then another analysis
                    # (or a lookup) into that list: the kept result reports what it reported when it was returned
                    kept = d.create(mode=SplitMode.C).tokenize(rng.choice(texts))
                    snap = [(m.surface(), m.begin(), m.end(), m.word_id()) for m in kept]
                    if len(kept):
                        sub = kept[rng.randrange(len(kept))].split(modes[rng.choice("AB")])
                        if rng.random() < 0.7:
                            tok.tokenize(rng.choice(texts), out=sub)
                        else:
                            d.lookup(rng.choice(texts)[:2], out=sub)
                        out["kept_result_checks"] = out.get("kept_result_checks", 0) + 1
                        try:
                            now = [(m.surface(), m.begin(), m.end(), m.word_id()) for m in kept]
                        except (KeyboardInterrupt, SystemExit):
                            raise
                        except BaseException as ex:  # noqa
                            now = repr(ex)
                        if now != snap:
                            mismatch("history", "a kept result changed after the list holding the split of one of its morphemes received another text: was %r, is %r" % (snap[:4], now[:4] if isinstance(now, list) else now), {})
                            break
                elif k == 0:
                    tok.tokenize(rng.choice(texts), mode=modes[rng.choice("ABC")])
                elif k == 1:
                    r = tok.tokenize(rng.choice(texts), out=reuse)
                    if len(r):
                        stale.append(r[rng.randrange(len(r))])
                elif k == 2:
                    # over-long input with a mode override: must raise, must not change later calls
                    tok.tokenize("あ" * 20000, mode=modes[rng.choice("ABC")])
                elif k == 3 and len(reuse):
                    m = reuse[rng.randrange(len(reuse))]
                    # split results written into a list that may hold / have held the result of another text: whatever is
                    # returned must tile the morpheme that was split (with add_single=False an empty list is allowed)
                    for kw in ({}, {"add_single": True}, {"add_single": False}):
                        target = rng.choice([split_out, other_list])
                        r = m.split(modes[rng.choice("AB")], out=target, **kw)
                        try:
                            parts = [(x.raw_surface(), x.begin(), x.end()) for x in r]
                        except (KeyboardInterrupt, SystemExit):
                            raise
                        except BaseException as ex:  # noqa
                            mismatch("split", "split(out=<reused list>, %r) of %r returns morphemes whose surface cannot be read: %r" % (kw, m.raw_surface(), ex), {})
                            break
                        out["split_out_checks"] = out.get("split_out_checks", 0) + 1
                        if parts or kw.get("add_single", True):
                            ok = "".join(p[0] for p in parts) == m.raw_surface() and parts and parts[0][1] == m.begin() and parts[-1][2] == m.end()
                            if not ok:
                                mismatch("split", "split(out=<reused list>, %r) of %r [%d:%d] returns %r" % (kw, m.raw_surface(), m.begin(), m.end(), parts[:6]), {})
                                break
                    # refill the other list with the result of another text
                    other_list = d.create(mode=modes[rng.choice("ABC")]).tokenize(rng.choice(texts))
                elif k == 4 and stale:
                    m = rng.choice(stale)
                    (m.surface(), m.begin(), m.end(), m.part_of_speech(), m.normalized_form(), m.word_id())
                elif k == 5:
                    fs = set(rng.sample(all_fields, rng.randrange(len(all_fields) + 1)))
                    t2 = d.create(mode=modes[rng.choice("ABC")], fields=fs)
                    # (sometimes into the reused list, which then carries this narrow field request)
                    for m in (t2.tokenize(rng.choice(texts), out=reuse) if rng.random() < 0.5 else t2.tokenize(rng.choice(texts))):
                        (m.surface(), m.dictionary_form(), m.reading_form(), m.normalized_form(), m.part_of_speech(), m.synonym_group_ids())
                elif k == 6:
                    t3 = d.create(mode=modes[rng.choice("ABC")], projection=rng.choice(projections))
                    [m.surface() for m in t3.tokenize(rng.choice(texts))]
                elif k == 7:
                    tok.tokenize(rng.choice(texts), out=reuse, mode=modes[rng.choice("ABC")])
                    tok.tokenize(rng.choice(texts), out=reuse)
                    r0 = tok.tokenize("", out=reuse)
                    if len(r0) != 0 or len(reuse) != 0:
                        mismatch("history", "tokenize('') into a reused list leaves %d morphemes in it" % len(reuse), {})
                else:
                    d.lookup(rng.choice(texts)[:3], out=reuse)
                    # morphemes found by lookup in a reused list split like those found in a new list
                    q = rng.choice(texts)[:rng.randrange(1, 5)]
                    la = d.lookup(q, out=reuse)
                    lb = d.lookup(q)
                    va = [[(x.raw_surface(), x.normalized_form(), x.reading_form(), x.part_of_speech_id()) for x in m.split(modes[sm])] for m in la for sm in "AB"]
                    vb = [[(x.raw_surface(), x.normalized_form(), x.reading_form(), x.part_of_speech_id()) for x in m.split(modes[sm])] for m in lb for sm in "AB"]
                    out["lookup_split_checks"] = out.get("lookup_split_checks", 0) + 1
                    if va != vb:
                        mismatch("lookup", "lookup(%r) into a reused list: the found words split into %r, found in a new list they split into %r" % (q, va[:3], vb[:3]), {})
                    r0 = d.lookup("", out=reuse)
                    if len(r0) != 0 or len(reuse) != 0:
                        mismatch("lookup", "lookup('') into a reused list leaves %d morphemes in it" % len(reuse), {})
            except (KeyboardInterrupt, SystemExit):
                raise
            except BaseException:  # noqa  (PyO3's PanicException derives from BaseException)
                out["python_exceptions"] += 1
            # probe: default mode of the long-lived tokenizer vs a fresh tokenizer
            probe = rng.choice(texts)
            try:
                a = [(m.surface(), m.word_id(), m.begin(), m.end()) for m in tok.tokenize(probe)]
                b = [(m.surface(), m.word_id(), m.begin(), m.end()) for m in d.create(mode=modes[base_mode]).tokenize(probe)]
                out["history_probes"] += 1
                if a != b:
                    mismatch("history", "after %d operations the long-lived tokenizer (mode %s) gives %r, a fresh one %r" % (op + 1, base_mode, a[:6], b[:6]),
                             {"probe": probe})
                    break
            except (KeyboardInterrupt, SystemExit):
                raise
            except BaseException:  # noqa
                out["python_exceptions"] += 1

    # ---- a result list shared by two threads (in every fourth scenario, and always in the threads stage)
    if n_threads > 0 or seed % 4 == 0:
        # one thread analyses a long text into a list again and again, another thread reads that list meanwhile: the
        # reader sees a complete result of some call (the analysis itself runs without the interpreter lock)
        shared = MorphemeList.empty(d)
        long_text = "".join(texts)[:6000] * 4
        stok = d.create(mode=SplitMode.C)
        sref = None
        try:
            sref = " ".join(m.raw_surface() for m in stok.tokenize(long_text))
        except (KeyboardInterrupt, SystemExit):
            raise
        except BaseException:  # noqa
            sref = None
        serr = []
        stop = []

        def writer():
            for _ in range(6 if n_threads == 0 else 12):
                try:
                    stok.tokenize(long_text, out=shared)
                except (KeyboardInterrupt, SystemExit):
                    raise
                except BaseException as ex:  # noqa
                    serr.append("tokenize(long text, out=L) raised %r while another thread reads L" % (ex,))
                    break
            stop.append(1)

        def reader():
            while not stop:
                try:
                    n = len(shared)
                    txt = str(shared)
                    if n and txt != sref:
                        serr.append("a reader of L saw %d morphemes that are not the result of the call" % n)
                        return
                    out["thread_results"] += 1
                except (KeyboardInterrupt, SystemExit):
                    raise
                except BaseException as ex:  # noqa
                    serr.append("reading L (len / str) while another thread analyses into it raised %r" % (ex,))
                    return

        if sref is not None:
            tw, tr = threading.Thread(target=writer), threading.Thread(target=reader)
            tw.start(); tr.start(); tw.join(); tr.join()
            for e in serr[:2]:
                mismatch("thread", e, {})


    # ---- threads sharing one Dictionary (Python half of C18)
    if n_threads > 0:
        seq = {}
        for t in texts:
            for mk in "AC":
                seq[(t, mk)] = [(m.surface(), m.word_id(), m.begin(), m.end(), m.normalized_form()) for m in d.create(mode=modes[mk]).tokenize(t)]
        errors = []

        def work(tid):
            r = random.Random(seed * 1000 + tid)
            # every thread has tokenizers of its own, created with the same arguments as those of the other threads
            mine = {mk: d.create(mode=modes[mk]) for mk in "AC"}
            for _ in range(300):
                t = r.choice(texts)
                mk = r.choice("AC")
                try:
                    got = [(m.surface(), m.word_id(), m.begin(), m.end(), m.normalized_form()) for m in mine[mk].tokenize(t)]
                except (KeyboardInterrupt, SystemExit):
                    raise
                except BaseException as ex:  # noqa
                    errors.append("thread %d: tokenize(%r) on the thread's own tokenizer raised %r (the single-threaded run succeeds)" % (tid, t, ex))
                    return
                if got != seq[(t, mk)]:
                    errors.append("thread %d: %r mode %s: %r != %r" % (tid, t, mk, got[:5], seq[(t, mk)][:5]))
                    return
                out["thread_results"] += 1

        ths = [threading.Thread(target=work, args=(i,)) for i in range(n_threads)]
        for t in ths:
            t.start()
        for t in ths:
            t.join()
        for e in errors[:5]:
            mismatch("thread", e, {})

        # a pool of tokenizers created by this (the main) thread with a field request, each then used by one worker thread
        pfields = {"pos", "surface", "normalized_form"} if cfg.get("pathRewritePlugin") else {"pos"}
        def pview(tk, t):
            return [(m.surface(), m.word_id(), m.begin(), m.end(), m.normalized_form(), m.reading_form(), m.dictionary_form(), m.part_of_speech_id()) for m in tk.tokenize(t)]
        pref_tok = d.create(mode=SplitMode.C, fields=set(pfields))
        pref = {t: pview(pref_tok, t) for t in texts}
        pool = [d.create(mode=SplitMode.C, fields=set(pfields)) for _ in range(n_threads)]
        perrors = []

        def pool_work(tid):
            r = random.Random(seed * 77 + tid)
            for _ in range(100):
                t = r.choice(texts)
                try:
                    got = pview(pool[tid], t)
                except (KeyboardInterrupt, SystemExit):
                    raise
                except BaseException as ex:  # noqa
                    perrors.append("thread %d: tokenize(%r) on a tokenizer created by the main thread raised %r" % (tid, t, ex))
                    return
                if got != pref[t]:
                    perrors.append("thread %d, tokenizer created by the main thread with fields=%r: %r, single-threaded %r" % (tid, sorted(pfields), got[:4], pref[t][:4]))
                    return
                out["thread_results"] += 1

        ths = [threading.Thread(target=pool_work, args=(i,)) for i in range(n_threads)]
        for t in ths:
            t.start()
        for t in ths:
            t.join()
        for e in perrors[:5]:
            mismatch("thread", e, {})

        # the HuggingFace pre-tokenizer binding shares one object between threads; the `tokenizers` package is not
        # available offline, so the two names the binding needs are provided by a stand-in (custom(obj) returns obj,
        # whose __call__(index, normalized_string) HuggingFace would invoke)
        try:
            ensure_stub(sdir)
            from tokenizers import NormalizedString
            sys.setswitchinterval(1e-5)
            ptexts = [t for t in texts if t][:12] or ["あ"]
            ref = d.create(mode=SplitMode.C)
            pexp = {t: [m.raw_surface() for m in ref.tokenize(t)] for t in ptexts}
            perr = []

            def handler(index, sentence, morphemes):
                text = str(sentence)
                n = 0
                for k in range(200):
                    n += k % 7
                got = [m.raw_surface() for m in morphemes]
                if got != pexp[text]:
                    perr.append("pre-tokenizer handler for %r was handed %r, expected %r" % (text, got[:6], pexp[text][:6]))
                return [NormalizedString(s) for s in got]

            pretok = d.pre_tokenizer(SplitMode.C, handler=handler)
            out["pretokenizer_calls"] = 0

            def pwork(tid):
                for i in range(400):
                    t = ptexts[(tid * 3 + i) % len(ptexts)]
                    try:
                        pretok(i, NormalizedString(t))
                        out["pretokenizer_calls"] += 1
                    except (KeyboardInterrupt, SystemExit):
                        raise
                    except BaseException as ex:  # noqa
                        perr.append("pre-tokenizer call for %r raised %r" % (t, ex))
                        return

            pth = [threading.Thread(target=pwork, args=(i,)) for i in range(4)]
            for t in pth:
                t.start()
            for t in pth:
                t.join()
            for e in perr[:3]:
                mismatch("thread_pretokenizer", e, {})
        except (KeyboardInterrupt, SystemExit):
            raise
        except BaseException as ex:  # noqa
            out["pretokenizer_setup_error"] = repr(ex)

    print(json.dumps(out, ensure_ascii=False))


if __name__ == "__main__":
    main()
