#!/usr/bin/env python3
"""Sink-fault monitor for the dictionary builders reached through Python and the command line (C06).

  sink.py <work_dir> <pkg_dir> <cli> <seed>

<work_dir> holds matrix.def, lex.csv (and user.csv) written by the Rust harness. The output file is made to
fail after L bytes with RLIMIT_FSIZE (SIGXFSZ ignored, so the write returns EFBIG; a write that crosses the limit
is cut short first). For every tried L below the full size the builder must raise / exit non-zero: success with a
shorter file is a sink failure reported as success. Prints one JSON object."""
import json
import os
import random
import resource
import signal
import subprocess
import sys


def main():
    wdir, pkg, cli, seed = sys.argv[1], sys.argv[2], sys.argv[3], int(sys.argv[4])
    sys.path.insert(0, pkg)
    import sudachipy.sudachipy as native
    rng = random.Random(seed)
    out = {"py_sink_fault_points": 0, "cli_sink_fault_points": 0, "py_user_sink_fault_points": 0, "mismatches": []}
    matrix = os.path.join(wdir, "matrix.def")
    lex = os.path.join(wdir, "lex.csv")
    user = os.path.join(wdir, "user.csv")
    full = os.path.join(wdir, "full.dic")
    target = os.path.join(wdir, "limited.dic")
    signal.signal(signal.SIGXFSZ, signal.SIG_IGN)
    inf = resource.RLIM_INFINITY

    def limits(size, n):
        pts = {0, 1, 2, size - 1, size - 2, size - 3, size // 2, 8191, 8192, 8193, 16384, size - 8192, size - 8193}
        while len(pts) < n + 13:
            pts.add(rng.randrange(size))
        return sorted(p for p in pts if 0 <= p < size)

    def limited(fn, lim):
        resource.setrlimit(resource.RLIMIT_FSIZE, (lim, inf))
        try:
            fn()
            ok = True
        except (KeyboardInterrupt, SystemExit):
            raise
        except BaseException:  # noqa
            ok = False
        finally:
            resource.setrlimit(resource.RLIMIT_FSIZE, (inf, inf))
        return ok

    def size_of(p):
        try:
            return os.path.getsize(p)
        except OSError:
            return -1

    try:
        native.build_system_dic(matrix=matrix, lex=[lex], output=full, description="vh")
    except BaseException as ex:  # noqa
        out["note"] = "full build failed: %r" % (ex,)
        print(json.dumps(out))
        return
    size = os.path.getsize(full)
    out["full_size"] = size
    for lim in limits(size, 60):
        if os.path.exists(target):
            os.remove(target)
        ok = limited(lambda: native.build_system_dic(matrix=matrix, lex=[lex], output=target, description="vh"), lim)
        out["py_sink_fault_points"] += 1
        if ok and size_of(target) < size:
            out["mismatches"].append({"kind": "sink_failure_reported_as_success", "site": "sudachipy.build_system_dic",
                                      "msg": "output limited to %d of %d bytes: build_system_dic returned normally, the file has %d bytes" % (lim, size, size_of(target))})
            break
    if os.path.exists(user):
        ufull = os.path.join(wdir, "ufull.dic")
        try:
            native.build_user_dic(system=full, lex=[user], output=ufull, description="vh-user")
            usize = os.path.getsize(ufull)
            for lim in limits(usize, 30):
                if os.path.exists(target):
                    os.remove(target)
                ok = limited(lambda: native.build_user_dic(system=full, lex=[user], output=target, description="vh-user"), lim)
                out["py_user_sink_fault_points"] += 1
                if ok and size_of(target) < usize:
                    out["mismatches"].append({"kind": "sink_failure_reported_as_success", "site": "sudachipy.build_user_dic",
                                              "msg": "output limited to %d of %d bytes: build_user_dic returned normally, the file has %d bytes" % (lim, usize, size_of(target))})
                    break
        except (KeyboardInterrupt, SystemExit):
            raise
        except BaseException as ex:  # noqa
            out["user_note"] = repr(ex)[:200]
    if cli and os.path.exists(cli):
        for lim in limits(size, 20):
            if os.path.exists(target):
                os.remove(target)

            def pre(lim=lim):
                signal.signal(signal.SIGXFSZ, signal.SIG_IGN)
                resource.setrlimit(resource.RLIMIT_FSIZE, (lim, lim))

            p = subprocess.run([cli, "build", "-m", matrix, "-o", target, "-d", "vh", lex], preexec_fn=pre, stdout=subprocess.DEVNULL, stderr=subprocess.DEVNULL)
            out["cli_sink_fault_points"] += 1
            if p.returncode == 0 and size_of(target) < size:
                out["mismatches"].append({"kind": "sink_failure_reported_as_success", "site": "sudachi build",
                                          "msg": "output limited to %d of %d bytes: `sudachi build` exits with status 0, the file has %d bytes" % (lim, size, size_of(target))})
                break
    print(json.dumps(out, ensure_ascii=False))


if __name__ == "__main__":
    main()
